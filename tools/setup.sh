#!/bin/sh
# Offline setup: make sure hypothesis is importable in /venv (it normally already is).
set -e
/venv/bin/python -c "import hypothesis" 2>/dev/null || \
  /venv/bin/pip install --no-index --find-links /opt/veriftools/wheels hypothesis
/venv/bin/python -c "import hypothesis, numpy; print('setup ok: hypothesis', hypothesis.__version__)"
