#!/venv/bin/python
"""Sensitivity runs: apply each mutants/<ID>/*.patch (or seeded/<name>/patch.diff) to a scratch
copy of /repo (outside /repo and /verif), run the quick check against it via VERIF_REPO and expect
exit 1. The scratch copy is removed afterwards. Nothing is ever applied to /repo itself.

usage: tools/mutants.py [ID ...] [--seeded] [--tier quick|thorough] [--patch FILE ID] [-j N]
"""
import glob
import json
import os
import shutil
import subprocess
import sys
import tempfile

HERE = os.path.dirname(os.path.dirname(os.path.abspath(__file__)))
REPO = "/repo"


def run_patch(patch, pid, tier="quick", clause=None, timeout=1500):
    td = tempfile.mkdtemp(prefix="verif_mut_")
    try:
        # copy tracked working tree (src + tests data needed by checks)
        shutil.copytree(os.path.join(REPO, "src"), os.path.join(td, "src"))
        shutil.copytree(os.path.join(REPO, "tests"), os.path.join(td, "tests"))
        r = subprocess.run(["patch", "-p1", "-s", "-d", td, "-i", os.path.abspath(patch)], capture_output=True, text=True)
        if r.returncode != 0:
            return "PATCH-FAILED", r.stdout + r.stderr
        env = dict(os.environ)
        env["VERIF_REPO"] = td
        cmd = [os.path.join(HERE, "check"), pid, tier]
        if clause:
            cmd += ["--clause", clause]
        try:
            r = subprocess.run(cmd, capture_output=True, text=True, env=env, cwd=HERE, timeout=timeout)
        except subprocess.TimeoutExpired as e:
            return "TIMEOUT(%ds)" % timeout, (e.stdout or "") if isinstance(e.stdout, str) else ""
        out = r.stdout + r.stderr
        if r.returncode == 1 and "VIOLATION property=%s" % pid in out:
            return "CAUGHT", out
        if r.returncode == 0:
            return "MISSED", out
        return "ERROR(rc=%d)" % r.returncode, out
    finally:
        shutil.rmtree(td, ignore_errors=True)


def main(argv):
    tier = "quick"
    ids = []
    seeded = False
    single = None
    njobs = 1
    it = iter(argv[1:])
    for a in it:
        if a == "--tier":
            tier = next(it)
        elif a == "--seeded":
            seeded = True
        elif a == "--patch":
            single = next(it)
        elif a in ("-j", "--jobs"):
            njobs = int(next(it))
        else:
            ids.append(a.upper())
    jobs = []
    if single:
        jobs = [(single, ids[0])]
    elif seeded:
        for d in sorted(glob.glob(os.path.join(HERE, "seeded", "*"))):
            meta = json.load(open(os.path.join(d, "meta.json")))
            if ids and meta["property"] not in ids:
                continue
            jobs.append((os.path.join(d, "patch.diff"), meta["property"]))
    else:
        for d in sorted(glob.glob(os.path.join(HERE, "mutants", "*"))):
            pid = os.path.basename(d)
            if ids and pid not in ids:
                continue
            for p in sorted(glob.glob(os.path.join(d, "*.patch"))):
                jobs.append((p, pid))
    bad = 0
    from concurrent.futures import ThreadPoolExecutor

    with ThreadPoolExecutor(max_workers=njobs) as ex:
        results = list(ex.map(lambda j: run_patch(j[0], j[1], tier), jobs))
    for (patch, pid), (status, out) in zip(jobs, results):
        first = ""
        for line in out.splitlines():
            if line.startswith("  ") and ":" in line:
                first = line.strip()[:150]
                break
        print("%-8s %s %s  %s" % (status, pid, os.path.relpath(patch, HERE), first))
        if status != "CAUGHT":
            bad += 1
            if status != "MISSED":
                print(out[-1500:])
    print("%d/%d caught" % (len(jobs) - bad, len(jobs)))
    return 1 if bad else 0


if __name__ == "__main__":
    sys.exit(main(sys.argv))
