#!/venv/bin/python
"""tools/mkmutant.py <ID> <name> <file relative to repo> <old text> <new text> [count]
Create mutants/<ID>/<name>.patch replacing the first (or count-th, 1-based) occurrence of <old> in the file."""
import difflib, os, sys
H = os.path.dirname(os.path.dirname(os.path.abspath(__file__)))
pid, name, rel, old, new = sys.argv[1:6]
nth = int(sys.argv[6]) if len(sys.argv) > 6 else 1
old = old.encode().decode("unicode_escape"); new = new.encode().decode("unicode_escape")
src = open(os.path.join("/repo", rel)).read()
idx = -1
for _ in range(nth):
    idx = src.find(old, idx + 1)
    if idx < 0:
        sys.exit("old text not found (occurrence %d): %r" % (nth, old))
mut = src[:idx] + new + src[idx + len(old):]
diff = "".join(difflib.unified_diff(src.splitlines(True), mut.splitlines(True), "a/" + rel, "b/" + rel))
os.makedirs(os.path.join(H, "mutants", pid), exist_ok=True)
open(os.path.join(H, "mutants", pid, name + ".patch"), "w").write(diff)
print("wrote mutants/%s/%s.patch" % (pid, name))
