#!/venv/bin/python
"""Run the repository's pinned test suite and compare with /root/.vp/BASELINE.json stable_pass."""
import json, subprocess, sys, tempfile, os, xml.etree.ElementTree as ET
base = json.load(open("/root/.vp/BASELINE.json"))
with tempfile.TemporaryDirectory() as td:
    xml = os.path.join(td, "r.xml")
    cmd = base["cmd"].replace("<file>", xml)
    r = subprocess.run(cmd, shell=True, capture_output=True, text=True)
    passed = set()
    failed = set()
    for tc in ET.parse(xml).getroot().iter("testcase"):
        name = "%s::%s" % (tc.get("classname"), tc.get("name"))
        if any(ch.tag in ("failure", "error") for ch in tc):
            failed.add(name)
        elif not any(ch.tag == "skipped" for ch in tc):
            passed.add(name)
stable = set(base["stable_pass"])
missing = sorted(stable - passed)
print("passed=%d failed=%d stable=%d missing_from_stable=%d newly_passing=%d" % (len(passed), len(failed), len(stable), len(missing), len(passed - stable)))
for m in missing[:40]:
    print("  MISSING", m)
sys.exit(1 if missing else 0)
