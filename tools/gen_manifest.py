#!/venv/bin/python
"""Regenerate MANIFEST.json from the table below (keeps it schema-valid at all times)."""
import json
import os

HERE = os.path.dirname(os.path.dirname(os.path.abspath(__file__)))

# id -> (technique, level category, level text, level note, design ref)
CHECKS = {}


def reg(pid, technique, text, note, category="exploration"):
    CHECKS[pid] = dict(technique=technique, text=text, note=note, category=category)


reg(
    "C19",
    "Hypothesis property-based testing: round-trip, order-preservation and Lipschitz oracles, mpmath reference for the published formulas",
    "Generated-input search over (scale parameters, frequency) with weight on the Bark break-points; "
    "every conjunct of the statement has its own clause and oracle. Finds inverse/forward mismatches, "
    "broken branch conditions and wrong constants; does not prove absence.",
    "float64 tolerances 1e-9 relative; mpmath 40-digit arithmetic is trusted as the reference for mel/Bark.",
)

reg(
    "C01",
    "Hypothesis property-based testing over (configuration, signal, composition into chunks) with compute_full on a fresh instance as oracle; exhaustive enumeration of all compositions for small L, S, N",
    "Generated chunkings (empty and single-sample chunks, cuts around frame boundaries) for STFT and short-integration computers plus the complete set of compositions of every N<=10 (quick: 6) for L<=8 (quick: 4); "
    "compares frame counts, values and dtype with compute_full. Found and now guards F01a/F01b/F01c/F03.",
    "compute_full is the reference (itself judged by C02/C03); float tolerances 1e-9 (STFT) / 1e-7 (SI); 1 kHz sampling rate, frame lengths <= 64.",
)
reg(
    "C02",
    "Hypothesis property-based testing against an independent full-spectrum reference model of the documented STFT definition",
    "Every quantifier of the statement is a generator dimension (bank class/scale, L/S parity, DFT size mod 4, style, kaldi_shift, window, log/power/energy, N around the boundaries); the oracle rebuilds H_i from get_truncated_response by the documented recipe and sums over the full DFT. Found and now guards F02.",
    "np.fft.fft and the bank's get_truncated_response (judged by C06) are trusted; tolerance 1e-9 of the column maximum.",
)
reg(
    "C03",
    "Hypothesis property-based testing against an independent time-domain reference (np.convolve, no FFT/overlap-save)",
    "Generated banks, shifts inside the precondition, styles, windows, flags, four float dtypes and signal lengths around DFT-block multiples; oracle = window-weighted sum of |x*h|^p with the clamped impulse response, +-1 sample alignment accepted. Found F03 and caught a wrong first repair of it.",
    "bank.get_impulse_response (judged by C07) and bank.supports are trusted; tolerance 1e-7 of the column maximum plus output-dtype rounding.",
)
reg(
    "C04",
    "Model-based testing: Hypothesis-generated operation histories against a `started` model and a freshly constructed twin instance per utterance (bit-identical outputs)",
    "Histories of up to 40 chunk/finalize/compute_full/frame_by_frame/refused calls on one instance with read-only inputs; any state leaking across utterances, a disturbed utterance or a modified input shows as a bit-level mismatch.",
    "a fresh instance of the same configuration is the reference; empty results compared by shape only.",
)
reg(
    "C14",
    "Differential property-based testing (PyTorch module vs NumPy counterpart, TorchScript vs eager) plus metamorphic/statistical relations for dither",
    "C02's configuration space through from_stft_frame_computer in double/single/default precision, wrappers for pre-/post-processors and SI, scripted modules, dither reproducibility/independence/moments. Found and now guards F14a and the torch port of F02.",
    "NumPy implementations are the reference (judged by C02/C03/C15/C16/C18); tolerances 1e-9 double, 2e-4 single.",
)

NOT_APPLICABLE = {}


def main():
    props = [json.loads(l) for l in open(os.path.join(HERE, "properties.jsonl"))]
    checks = []
    na = []
    for p in props:
        pid = p["id"]
        if pid in CHECKS:
            c = CHECKS[pid]
            checks.append(
                {
                    "property_id": pid,
                    "quick_cmd": "./check %s quick" % pid,
                    "thorough_cmd": "./check %s thorough" % pid,
                    "evidence_file": "evidence/%s.json" % pid,
                    "replay_cmd_template": "./check %s quick --replay {path}" % pid,
                    "engine": "pbt-harness",
                    "level_claimed": {
                        "category": c["category"],
                        "text": c["text"],
                        "design_ref": "DESIGN.md section 2, %s" % pid,
                    },
                    "level_note": c["note"],
                    "technique": c["technique"],
                }
            )
        else:
            na.append(
                {
                    "property_id": pid,
                    "reason": NOT_APPLICABLE.get(
                        pid,
                        "check not built yet (work in progress; the technique applies, see DESIGN.md section 2)",
                    ),
                }
            )
    manifest = {
        "version": 1,
        "setup_cmd": "sh tools/setup.sh",
        "hooks": {
            "guard": "PYDROBERT_SPEECH_VERIF",
            "enable": "no source hooks are used: every observation point is a public return value, a file or an exception; fault injection patches torch.save/print inside a forked child from the harness side",
            "baseline_off_cmd": "cd /repo && /venv/bin/python -m pytest -ra -q -p no:cacheprovider --timeout=900 --continue-on-collection-errors",
            "source_commits": [],
            "add_only": True,
        },
        "engines": [
            {
                "name": "pbt-harness",
                "path": "harness/",
                "serves_properties": sorted(CHECKS),
                "kind_free_text": "Hypothesis 6.168 strategies over JSON cases, per-clause independent oracles, shrinking to JSON replay files, sharded thorough tier, atheris campaigns for byte-level decoders",
            }
        ],
        "checks": checks,
        "notes": "All checks import pydrobert.speech from $VERIF_REPO/src (default /repo), i.e. the current working tree. VERIF_SEED selects the Hypothesis seed. Exit 2 = harness error.",
        "not_applicable": na,
    }
    with open(os.path.join(HERE, "MANIFEST.json"), "w") as f:
        json.dump(manifest, f, indent=1)
    print("MANIFEST.json: %d checks, %d not_applicable" % (len(checks), len(na)))


if __name__ == "__main__":
    main()
