#!/venv/bin/python
"""Regenerate MANIFEST.json from the table below (keeps it schema-valid at all times)."""
import json
import os

HERE = os.path.dirname(os.path.dirname(os.path.abspath(__file__)))

# id -> (technique, level category, level text, level note, design ref)
CHECKS = {}


def reg(pid, technique, text, note, category="exploration"):
    CHECKS[pid] = dict(technique=technique, text=text, note=note, category=category)


reg(
    "C19",
    "Hypothesis property-based testing: round-trip, order-preservation and Lipschitz oracles, mpmath reference for the published formulas",
    "Generated-input search over (scale parameters, frequency) with weight on the Bark break-points; "
    "every conjunct of the statement has its own clause and oracle. Finds inverse/forward mismatches, "
    "broken branch conditions and wrong constants; does not prove absence.",
    "float64 tolerances 1e-9 relative; mpmath 40-digit arithmetic is trusted as the reference for mel/Bark.",
)

reg(
    "C01",
    "Hypothesis property-based testing over (configuration, signal, composition into chunks) with compute_full on a fresh instance as oracle; exhaustive enumeration of all compositions for small L, S, N",
    "Generated chunkings (empty and single-sample chunks, cuts around frame boundaries) for STFT and short-integration computers plus the complete set of compositions of every N<=10 (quick: 6) for L<=8 (quick: 4); "
    "compares frame counts, values and dtype with compute_full. Found and now guards F01a/F01b/F01c/F03.",
    "compute_full is the reference (itself judged by C02/C03); float tolerances 1e-9 (STFT) / 1e-7 (SI); 1 kHz sampling rate, frame lengths <= 64.",
)
reg(
    "C02",
    "Hypothesis property-based testing against an independent full-spectrum reference model of the documented STFT definition",
    "Every quantifier of the statement is a generator dimension (bank class/scale, L/S parity, DFT size mod 4, style, kaldi_shift, window, log/power/energy, N around the boundaries); the oracle rebuilds H_i from get_truncated_response by the documented recipe and sums over the full DFT. Found and now guards F02.",
    "np.fft.fft and the bank's get_truncated_response (judged by C06) are trusted; tolerance 1e-9 of the column maximum.",
)
reg(
    "C03",
    "Hypothesis property-based testing against an independent time-domain reference (np.convolve, no FFT/overlap-save)",
    "Generated banks, shifts inside the precondition, styles, windows, flags, four float dtypes and signal lengths around DFT-block multiples; oracle = window-weighted sum of |x*h|^p with the clamped impulse response, +-1 sample alignment accepted. Found F03 and caught a wrong first repair of it.",
    "bank.get_impulse_response (judged by C07) and bank.supports are trusted; tolerance 1e-7 of the column maximum plus output-dtype rounding.",
)
reg(
    "C04",
    "Model-based testing: Hypothesis-generated operation histories against a `started` model and a freshly constructed twin instance per utterance (bit-identical outputs)",
    "Histories of up to 40 chunk/finalize/compute_full/frame_by_frame/refused calls on one instance (also with a frame shift above the frame length, mixed-dtype refused calls, non-finite tails) with read-only or writable inputs, every array ever handed over being compared with a private copy after every later step; any state leaking across utterances, a disturbed utterance or a modified input shows as a bit-level mismatch.",
    "a fresh instance of the same configuration is the reference; empty results compared by shape only.",
)
reg(
    "C14",
    "Differential property-based testing (PyTorch module vs NumPy counterpart, TorchScript vs eager) plus metamorphic/statistical relations for dither",
    "C02's configuration space through from_stft_frame_computer in double/single/default precision, wrappers for pre-/post-processors and SI, scripted modules, dither reproducibility/independence/moments. Found and now guards F14a and the torch port of F02.",
    "NumPy implementations are the reference (judged by C02/C03/C15/C16/C18); tolerances 1e-9 double, 2e-4 single.",
)

reg(
    "C05",
    "Hypothesis property-based testing against independent layout/triangle/Gabor/gammatone reference formulas (banks_ref.py) and numerical gain, crossing, ERB and L2 measurements",
    "Generated banks over 4 classes x 4 scales x rates x ranges x flags; clauses: layout (edges equally spaced on the scale, centres increasing and inside supports_hz), triangle at every DFT bin, peak gain / 3 dB crossing / ERB, unit L2 norm, rejection of invalid ranges with ValueError. Found and now guards F05a/b/c.",
    "own scale formulas from the cited papers; both readings of '3 dB' accepted; gain clauses only for filters spanning < rate/2.",
)
reg(
    "C06",
    "Hypothesis property-based testing of consistency relations between get_truncated_response (documented recipe), get_frequency_response and its half=True form",
    "Generated (bank, filter, DFT width 2..4096 incl. widths below the bandwidth) triples; rebuilt response within 2x threshold (identical for triangular/Fbank), start bin range, half-spectrum containment, Hermitian symmetry, analytic zeros, finiteness; earlier queries on the same bank (with results modified in place by the caller) and, exhaustively, every ordered triple of requests over two filters, two widths and three response methods compared with a fresh bank.",
    "the documented recipe is the specification; EFFECTIVE_SUPPORT_THRESHOLD read from config.",
)
reg(
    "C07",
    "Hypothesis property-based testing: inverse DFT of the frequency response vs the impulse response, and magnitudes outside the advertised supports",
    "Generated (bank, filter, buffer width >= max(temporal support, 2*rate/bandwidth)) for zero-phase banks and gammatone order >= 3 without L2; agreement within 2x threshold, realness iff is_real, outside-support bounds, support placement; widths at which float-step grids miscount, round-vertex and Bark banks, and exhaustively every ordered triple of impulse / frequency requests over two filters and three widths compared with a fresh bank. Found and now guards F07.",
    "filters whose supports_hz span exceeds the sampling rate are outside the statement (no buffer resolves them); buffers capped at 8192 samples.",
)
reg(
    "C09",
    "Hypothesis property-based testing of both command-line tools (in-process; repeated runs also in a new interpreter with another PYTHONHASHSEED) against a reference pipeline built from explicit NumPy objects; metamorphic clauses for config syntax and --seed",
    "Generated utterance sets (containers, channels, too-short signals, rate mismatch, --min-duration, --channel, --manifest, --num-workers), computer/pre/post configurations in three syntaxes; stored ids and matrices must equal the library pipeline. Found and now guards F09a/F09b.",
    "float32 storage tolerance 2e-4; dither>0 only in the fixed-seed metamorphic clause; reference-pipeline failures define the domain (discarded, counted).",
)
reg(
    "C11",
    "Hypothesis round-trip testing per container with the container's own writer, error-contract clauses, and forked-child fuzzing of wds_read_signal with mutated valid files and random bytes",
    "Round trips (path, open file, BytesIO) for wav16/32, flac, aiff, npy, npz, pt, hdf5, raw, sph incl. dtype casts and keys; IOError/ValueError contracts; wds_read_signal equals the path read on valid bytes and returns ndarray/None without raising (or crashing natively) on garbage. Found and now guards F11a.",
    "writers (wave, soundfile, numpy, torch, h5py, own SPHERE writer) are trusted; casts generated in range; 8/24-bit wav and ogg are outside the statement.",
)
reg(
    "C12",
    "Hypothesis round-trip testing with an independent SPHERE writer and an independent ITU-T G.711 decoder; exhaustive enumeration of both code tables",
    "Generated codings x channels 1..8 (and 17, 64) x sample counts around the 16 KiB read boundaries (and > 2.5 MiB) x header sizes/layouts/padding bytes/optional fields x dtypes x access paths (path, bare name, open file, BytesIO, descriptor-named, unnamed and gzip streams); truncated data sections; all 256 codes x 2 laws; malformed headers. Found and now guards F12a/F12b.",
    "own writer and G.711 segment formulas (self-tested) are the reference.",
)
reg(
    "C13",
    "Hypothesis round-trip testing with an independent randomised shorten v1/v2 encoder (validated bit-for-bit against the six sph2pipe vectors); exhaustive prefix truncation for the error contract",
    "Generated encoder programs (version, sample type incl. both mu-law types, channels, block sizes, nmean, maxnlpc, per-block command/LPC coefficients/residual width, BLOCKSIZE/BITSHIFT commands, long multi-refill streams) must decode to the encoded samples; reference vectors equal their WAVs; every strict prefix, undefined commands and versions raise IOError. Found and now guards F13a/F13b.",
    "own encoder is the reference (self-test against shipped vectors); mu-law with non-zero bit shift not generated.",
)
reg(
    "C15",
    "Hypothesis property-based testing against explicit-loop reference models of the Kaldi delta recursion and the Stack layout",
    "Generated tensors (1-4 dims, empty axes, int/float dtypes), axes incl. negative, num_deltas, context windows, all numpy pad modes (four from own index maps, the others with numpy.pad on the whole axis as reference), non-finite and 2**1020-scaled data, sibling objects built before and after, num_vectors incl. more than the frame count; 2-D and N-D paths cross-checked; inputs unchanged.",
    "own padding index maps replicate numpy.pad semantics for the four generated modes (self-tested).",
)
reg(
    "C16",
    "Hypothesis property-based testing over accumulate histories (partitions/permutations/presentations of a data set) against longdouble moments; metamorphic additivity",
    "apply == (x-mean)/std for any split, order and axis presentation; own-statistics mode gives mean 0 / variance 1; float64 result; ValueError on dimension mismatch; input untouched unless in_place; statistics also applied after a save / load (all file kinds, files written by another program in the Kaldi layout, three loads with an accumulate in between), data sets of up to 5000 vectors, float16 / longdouble / unsigned features.",
    "variances kept >= 1e-3 by construction (the isclose-to-zero replacement is not part of the statement).",
)
reg(
    "C17",
    "Hypothesis property-based testing over save/reload histories per file kind (round trip of the transform), including repeated saves and foreign archive entries",
    "save -> Standardize(rfilename) -> identical apply for .npy/.npz(key, compress)/raw; repeated saves succeed; overwrite flag decides whether other npz entries are kept (either direction accepted, must be consistent); ValueError without statistics; a second writer (also of another dimension) between saves, bare file names, all-digit keys, re-saves by the reloaded object. Found and now guards F17a/F17b.",
    "temporary directories per case.",
)

reg(
    "C08",
    "Exhaustive enumeration of the alias registry against a hand-written alias->class table, plus Hypothesis-generated class forests (shadowing model), mappings and nested JSON configuration twins (bit-identical features)",
    "Every (family, alias, access path) triple resolves to the documented class; unknown strings raise ValueError; last-registered-wins on generated forests under a throw-away root; alias_factory_subclass_from_arg contract on dict/OrderedDict/MappingProxyType; JSON round-tripped nested configurations compute bit-identical features to explicitly constructed twins.",
    "the expected alias table is transcribed from the documentation; forests are generated only in shapes where 'registered last' is unambiguous.",
)
reg(
    "C10",
    "Fault enumeration: fork-based kill/interrupt injection at every (utterance, phase, kind) crash point of signals-to-torch-feat-dir, invariants after the crash and after resume against an uninterrupted reference run; Hypothesis-generated crash histories and worker counts",
    "Complete crash-point grid (k x {before_save, mid_write, after_save, after_manifest} x {hard, soft}) for 1..5 utterances x workers {0,2} in the thorough tier (3 utterances in quick), generated single crashes, histories of 2-3 successive crashes, and worker-count independence with drawn per-item delays; dither > 0 with a fixed --seed throughout; resumes also in a new interpreter (another PYTHONHASHSEED), --file-prefix/--file-suffix, blank map lines, a short-integration computer with zero-frame utterances, a map of 261 utterances. Found and now guards F10a/F10b.",
    "hard kill = os._exit at Python-level points (a kill inside a write() system call cannot be injected); worker schedules perturbed, not enumerated.",
    category="fault_enumeration",
)
reg(
    "C18",
    "Hypothesis property-based testing: explicit float64 recurrence oracle for Preemphasize, metamorphic and statistical relations for Dither",
    "All lengths 0..64 (and to 100003) x float/int/unsigned dtypes in either byte order x coefficients x in_place x memory layouts x construction routes (class, alias, mapping); dither: noise independent of the signal, linear in coeff, identity at 0, reproducible under numpy.random.seed, 6-sigma moments on 2e5 draws; inputs untouched unless in_place.",
    "int64 beyond 2^53 judged against the documented float64 intermediate; statistics deterministic per VERIF_SEED.",
)
reg(
    "C20",
    "Hypothesis property-based testing plus exhaustive width grids against own closed forms (windows), a direct-summation inverse DFT (circshift_fourier) and 50-digit mpmath (gauss_quant)",
    "Every window class (by class and by each alias) for all widths 0..64 (thorough 0..512) and generated widths to 4096 incl. those at which float-step grids miscount, gamma parameters also assigned after construction; circshift over segment/start/dft_size (default None, fitting, wrapping)/shift/dtype/copy; gauss_quant accuracy, monotonicity and affinity across (1e-20, 1-1e-16); hertz/angular round trips. Found and now guards F20.",
    "widths 0 and 1 judged for length and sign only (degenerate area); GammaWindow order 1 judged as a reversed exponential only.",
)

NOT_APPLICABLE = {}


def main():
    props = [json.loads(l) for l in open(os.path.join(HERE, "properties.jsonl"))]
    checks = []
    na = []
    for p in props:
        pid = p["id"]
        if pid in CHECKS:
            c = CHECKS[pid]
            checks.append(
                {
                    "property_id": pid,
                    "quick_cmd": "./check %s quick" % pid,
                    "thorough_cmd": "./check %s thorough" % pid,
                    "evidence_file": "evidence/%s.json" % pid,
                    "replay_cmd_template": "./check %s quick --replay {path}" % pid,
                    "engine": "pbt-harness",
                    "level_claimed": {
                        "category": c["category"],
                        "text": c["text"],
                        "design_ref": "DESIGN.md section 2, %s" % pid,
                    },
                    "level_note": c["note"],
                    "technique": c["technique"],
                }
            )
        else:
            na.append(
                {
                    "property_id": pid,
                    "reason": NOT_APPLICABLE.get(
                        pid,
                        "check not built yet (work in progress; the technique applies, see DESIGN.md section 2)",
                    ),
                }
            )
    manifest = {
        "version": 1,
        "setup_cmd": "sh tools/setup.sh",
        "hooks": {
            "guard": "PYDROBERT_SPEECH_VERIF",
            "enable": "no source hooks are used: every observation point is a public return value, a file or an exception; fault injection patches torch.save/print inside a forked child from the harness side",
            "baseline_off_cmd": "cd /repo && /venv/bin/python -m pytest -ra -q -p no:cacheprovider --timeout=900 --continue-on-collection-errors",
            "source_commits": [],
            "add_only": True,
        },
        "engines": [
            {
                "name": "pbt-harness",
                "path": "harness/",
                "serves_properties": sorted(CHECKS),
                "kind_free_text": "Hypothesis 6.168 strategies over JSON cases, per-clause independent oracles, shrinking to JSON replay files, sharded thorough tier, atheris campaigns for byte-level decoders",
            }
        ],
        "checks": checks,
        "notes": "All checks import pydrobert.speech from $VERIF_REPO/src (default /repo), i.e. the current working tree. VERIF_SEED selects the Hypothesis seed. Exit 2 = harness error.",
        "not_applicable": na,
    }
    with open(os.path.join(HERE, "MANIFEST.json"), "w") as f:
        json.dump(manifest, f, indent=1)
    print("MANIFEST.json: %d checks, %d not_applicable" % (len(checks), len(na)))


if __name__ == "__main__":
    main()
