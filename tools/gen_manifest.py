#!/venv/bin/python
"""Regenerate MANIFEST.json from the table below (keeps it schema-valid at all times)."""
import json
import os

HERE = os.path.dirname(os.path.dirname(os.path.abspath(__file__)))

# id -> (technique, level category, level text, level note, design ref)
CHECKS = {}


def reg(pid, technique, text, note, category="exploration"):
    CHECKS[pid] = dict(technique=technique, text=text, note=note, category=category)


reg(
    "C19",
    "Hypothesis property-based testing: round-trip, order-preservation and Lipschitz oracles, mpmath reference for the published formulas",
    "Generated-input search over (scale parameters, frequency) with weight on the Bark break-points; "
    "every conjunct of the statement has its own clause and oracle. Finds inverse/forward mismatches, "
    "broken branch conditions and wrong constants; does not prove absence.",
    "float64 tolerances 1e-9 relative; mpmath 40-digit arithmetic is trusted as the reference for mel/Bark.",
)

NOT_APPLICABLE = {}


def main():
    props = [json.loads(l) for l in open(os.path.join(HERE, "properties.jsonl"))]
    checks = []
    na = []
    for p in props:
        pid = p["id"]
        if pid in CHECKS:
            c = CHECKS[pid]
            checks.append(
                {
                    "property_id": pid,
                    "quick_cmd": "./check %s quick" % pid,
                    "thorough_cmd": "./check %s thorough" % pid,
                    "evidence_file": "evidence/%s.json" % pid,
                    "replay_cmd_template": "./check %s quick --replay {path}" % pid,
                    "engine": "pbt-harness",
                    "level_claimed": {
                        "category": c["category"],
                        "text": c["text"],
                        "design_ref": "DESIGN.md section 2, %s" % pid,
                    },
                    "level_note": c["note"],
                    "technique": c["technique"],
                }
            )
        else:
            na.append(
                {
                    "property_id": pid,
                    "reason": NOT_APPLICABLE.get(
                        pid,
                        "check not built yet (work in progress; the technique applies, see DESIGN.md section 2)",
                    ),
                }
            )
    manifest = {
        "version": 1,
        "setup_cmd": "sh tools/setup.sh",
        "hooks": {
            "guard": "PYDROBERT_SPEECH_VERIF",
            "enable": "no source hooks are used: every observation point is a public return value, a file or an exception; fault injection patches torch.save/print inside a forked child from the harness side",
            "baseline_off_cmd": "cd /repo && /venv/bin/python -m pytest -ra -q -p no:cacheprovider --timeout=900 --continue-on-collection-errors",
            "source_commits": [],
            "add_only": True,
        },
        "engines": [
            {
                "name": "pbt-harness",
                "path": "harness/",
                "serves_properties": sorted(CHECKS),
                "kind_free_text": "Hypothesis 6.168 strategies over JSON cases, per-clause independent oracles, shrinking to JSON replay files, sharded thorough tier, atheris campaigns for byte-level decoders",
            }
        ],
        "checks": checks,
        "notes": "All checks import pydrobert.speech from $VERIF_REPO/src (default /repo), i.e. the current working tree. VERIF_SEED selects the Hypothesis seed. Exit 2 = harness error.",
        "not_applicable": na,
    }
    with open(os.path.join(HERE, "MANIFEST.json"), "w") as f:
        json.dump(manifest, f, indent=1)
    print("MANIFEST.json: %d checks, %d not_applicable" % (len(checks), len(na)))


if __name__ == "__main__":
    main()
