#!/bin/sh
# tools/run_all.sh <tier> [seed ...] : run every registered check, print one line each
tier=${1:-quick}; shift
seeds=${@:-1}
cd "$(dirname "$0")/.."
for s in $seeds; do
  for p in C01 C02 C03 C04 C05 C06 C07 C08 C09 C10 C11 C12 C13 C14 C15 C16 C17 C18 C19 C20; do
    start=$(date +%s)
    out=$(VERIF_SEED=$s ./check $p $tier 2>&1); rc=$?
    end=$(date +%s)
    echo "seed=$s $p rc=$rc $((end-start))s $(echo "$out" | tail -1 | cut -c1-120)"
    if [ $rc -ne 0 ]; then echo "$out" | grep -E "VIOLATION|HARNESS|^  " | head -8 | cut -c1-400; fi
  done
done
