#!/opt/veriftools/pyvenv/bin/python
"""Validate MANIFEST.json and evidence/*.json against the schemas."""
import glob, json, sys, os
import jsonschema
H = os.path.dirname(os.path.dirname(os.path.abspath(__file__)))
ok = True
def v(path, schema):
    global ok
    try:
        jsonschema.validate(json.load(open(path)), json.load(open(schema)))
        print("valid  ", path)
    except Exception as e:
        ok = False
        print("INVALID", path, str(e)[:300])
v(H + "/MANIFEST.json", "/root/.vp/MANIFEST.schema.json")
for p in sorted(glob.glob(H + "/evidence/*.json")):
    v(p, "/root/.vp/EVIDENCE.schema.json")
sys.exit(0 if ok else 1)
