#!/venv/bin/python
"""tools/add_fixed.py <finding id> <property[,property]> <repo commit> <witness corpus file(s), comma separated> <what failed>"""
import json, sys, os
H = os.path.dirname(os.path.dirname(os.path.abspath(__file__)))
fid, props, commit, wit, what = sys.argv[1:6]
p = os.path.join(H, "known_findings.json")
d = json.load(open(p))
d["fixed"] = [f for f in d["fixed"] if f["id"] != fid]
for prop in props.split(","):
    pass
d["fixed"].append({
    "id": fid, "properties": props.split(","), "commit": commit, "witnesses": wit.split(","),
    "line": "fixed: property=%s %s %s" % (props.split(",")[0], commit, what),
    "what": what,
})
d["fixed"].sort(key=lambda f: f["id"])
json.dump(d, open(p, "w"), indent=1)
print(d["fixed"][-1]["line"] if d["fixed"] else "")
