#!/venv/bin/python
"""Regenerate section 7 of DESIGN.md (as-built record) from known_findings.json, mutants/ and seeded/."""
import glob
import json
import os

H = os.path.dirname(os.path.dirname(os.path.abspath(__file__)))
fixed = json.load(open(os.path.join(H, "known_findings.json")))["fixed"]
rows = ["| %s | %s | `%s` | %s |" % (f["id"], ", ".join(f["properties"]), f["commit"], f["what"]) for f in fixed]
seeds, missed, total = [], 0, 0
for d in sorted(glob.glob(os.path.join(H, "seeded", "*"))):
    m = json.load(open(os.path.join(d, "meta.json")))
    c = m.get("confirmed_by_me", {})
    total += 1
    if c.get("first_quick_run") == "MISSED":
        missed += 1
    seeds.append("| %s | %s | %s | %s |" % (os.path.basename(d), m.get("summary", "").replace("|", "/").replace("\n", " ")[:260],
                                            c.get("first_quick_run", "?"), c.get("strengthening", "-")))
mut = {}
for d in sorted(glob.glob(os.path.join(H, "mutants", "*"))):
    mut[os.path.basename(d)] = len(glob.glob(os.path.join(d, "*.patch")))

sec = '''
---------------------------------------------------------------------------------------

## 7. As built: what exists, what was found, what was corrected, what catches what

### 7.1 Machinery as built (deviations from sections 1-2)

* **Engine.** `check <ID> <quick|thorough> [--replay F] [--clause C] [--corpus-only]` ->
  `harness/core.py`. A property module (`harness/props/cNN.py`) returns a list of `Clause`
  objects; a clause has a Hypothesis strategy of **plain JSON cases** (so a case is its own
  replay file), a `check(case)` that raises `Violation` / `Discard` and returns
  `{nontrivial, labels}`, case counts per tier, optionally an `enumerate(tier)` generator
  for an exhaustive sub-space and a `fuzz_runs` budget. *[as built]* Histories (C04, C10,
  C16, C17, C08 shadowing, and the "prior use" options below) are generated as **lists of
  operations inside one JSON case** and interpreted against a model, not as
  `RuleBasedStateMachine` classes: the whole history shrinks as one value exactly as in
  Hypothesis' stateful mode, and the replay file is the history itself.
* **Determinism.** `@seed(VERIF_SEED)`, `database=None`, `deadline=None`,
  `derandomize=False`; `check` re-executes itself with `PYTHONHASHSEED=0`; thorough shards
  use seed `VERIF_SEED*1000+shard` (subprocess per shard, merged recorders). A case whose
  outcome changes between repeated runs (Hypothesis `Flaky`, e.g. uninitialised memory in
  the code under test) is reported as a violation flagged *non-deterministic*. Time budgets
  (C10 tool run 600 s) end in exit 2 (inconclusive), never in a violation; the only
  exception is a `wds_read_signal` call that does not return within 300 s (C11), because
  "never raises, returning None" excludes hanging.
* **Coverage-guided tier** *[as built, replaces the byte-level atheris targets of section 2]*.
  In the thorough tier selected clauses (C01 stft/si chunked, C03, C06 truncated, C12
  truncated, C13 roundtrip/errors, C15) additionally run an **atheris (libFuzzer)
  campaign whose bytes drive Hypothesis' choice sequence** (`test.hypothesis.fuzz_one_input`,
  `harness/fuzz_runner.py`): the structured generators and the semantic oracle are reused
  unchanged, coverage of `pydrobert.speech` guides the search, 8 processes x 2500 runs per
  clause from a deterministic pseudo-random seed corpus (an empty corpus makes libFuzzer
  stall on inputs too short for a whole case). A finding is re-confirmed by a plain call of
  the clause's check before it is reported. atheris is installed into `/verif/.deps` from the
  offline wheelhouse on first use; if that is impossible the campaign is skipped with a note.
  Raw byte-level fuzzing is kept where the statement quantifies over arbitrary bytes (C11
  `wds_garbage`, in forked children so that a native crash is a violation, and the C13
  exhaustive prefix truncation).
* **C10 fault model as built.** Phases `before_save`, `mid_write`, `after_save`,
  `after_manifest` and `in_compute` (while the next utterance is being fetched/computed, main
  process only) x `hard` / `soft`. The forked child reseeds numpy / torch / random from the OS
  first: a real invocation is a fresh process, whereas a fork inherits the parent's RNG state
  and made a "random fallback seed" look reproducible (this hid seed C10_b1 at first). A fork also inherits
  the string-hash salt, which hid seeds C09_e1 / C10_e1 (`hash(utt_id)` used as a seed): resumes and repeated
  runs are therefore also made in a **new interpreter** with a drawn PYTHONHASHSEED, re-using the same
  instrumented child through a boot script (`run_tool(fresh=...)`, `harness/faults/fresh.py`); the quick tier
  of C10 and of the C09 fixed-seed clause is spread over several processes (`Clause.quick_shards`) to pay for
  the interpreter start-up.
* **Evidence** is written only when the tree under test is `/repo` (runs against scratch or
  mutant trees via `VERIF_REPO` never touch `evidence/`).
* **Corpus** (`corpus/<ID>/*.json`) is replayed first in both tiers: one or more witnesses of
  every repaired defect, boundary cases, and the shrunk killing case of several mutants.
* **No repository hooks** were needed (`MANIFEST.hooks.source_commits` is empty).

### 7.2 Genuine defects found and repaired (one `fix:` commit each, `known_findings.json`)

Every row was first reported by the named property's check on the then-current tree, the
witness was saved, the repair committed, the unedited test suite re-run (766 pass, all 752
baseline tests among them) and the witness now passes. `known` is empty: nothing is
suppressed.

| id | properties | commit | what failed |
|----|-----------|--------|-------------|
''' + "\n".join(rows) + '''

Found *after* the design was written (not in section 3): **F14c** and **F19a** (see lesson xxiv below; found when round 7 of the seeding made me widen two generator ranges), **F01c** (kaldi_shift, shift 1, even
length: `compute_chunk` emitted frame 0 one sample early - found by the exhaustive
composition sub-space), **F09c** (PyTorch STFT padding could not reflect more than the signal
length - found by the thorough tier of C09), **F11a** (`wds_read_signal` returning an
`NpzFile`), **F14b** (PyTorch STFT framing a non-contiguous tensor from the wrong memory -
pointed out by two seeding sub-agents as a pre-existing defect, reproduced by C14/C09 after
strided / Fortran-ordered inputs were added to the generators, then repaired). A **first
repair of F03 was wrong** (casting every block to float64 dropped the imaginary part of
complex filters); the repository's tests passed, C03's time-domain reference caught it within
seconds and the commit was corrected before anything else was built on it (witness
`corpus/C03/complex_filter_kept_complex.json`). The first version of the F09a repair made the
shipped CLI test fail (post-processors applied to 0-frame matrices); it was rewritten to skip
empty matrices.

### 7.3 False alarms of the machinery that were corrected (never listed as findings)

* C19 `monotone`: the inverse was probed at `s1 + gap` outside the image of the scale -> both
  points are now images of domain points.
* C02/C14: a real triangular filter's response at its own vertex is 1e-17 instead of 0, so
  a *numerically zero* coefficient differed by a factor 2 -> tolerance gained an absolute
  term of 1e-12 of the all-pass coefficient of the loudest frame. Same class in C03 (a
  1e-19 column, found by the thorough tier): 1e-13 of the coefficient's upper bound.
* C03 float16/float32: the code rounds the linear value to the output dtype *before* taking
  the log; the tolerance now models both roundings and float16 subnormals.
* C04: an empty result's dtype after a zero-sample utterance is not part of the statement ->
  empty matrices are compared by shape.
* C09: `--min-duration` equal to a duration that is *not* exactly representable is a float
  boundary the statement does not settle -> generated strictly between such durations (exact
  binary durations are generated and must be kept); the SI frame shift of the reference and
  of the tool's configuration are derived by one function; the "filter without any DFT bin"
  configurations that the torch module rejects by design are discarded (and counted).
* C11: HDF5 converts byte-swapped half floats with its own routines (differs from a numpy
  cast on a few values) -> such files are read without a cast.
* C18/C20/C11/C17/C16 (sub-agent built): int64 above 2^53 vs the documented float64
  intermediate, subnormal frequencies, width-1 windows, HDF5 saturating casts, NaN-aware
  attribute comparison - each fixed by re-deriving the domain from the statement.
* Found by running every quick check at VERIF_SEED 1, 2 and 3 after each round of generator changes:
  C16 `own_statistics` demanded variance 1 to 1e-9 on 5000 vectors with |mean|/std of 950 (float64
  cancellation in E[x^2]-mean^2 is 1e-9 there) -> the bound follows the same conditioning model as the other
  clauses; C09 `fixed_seed` demanded that *another* seed changes the output, which is not in the statement and
  fails for a filter without any response -> now only a measure of non-triviality; C03 fed a half-precision
  computer a "loud" signal whose samples are inf in half precision, and a LOG_FLOOR_VALUE (1e-9, my own
  configuration variation) that rounds to zero in half precision -> neither is generated any more; C10
  `crash_history` injected an "in_compute" fault with DataLoader workers, where items are computed and counted
  outside the main process -> that combination is no longer generated; C15 compared a computed pad value
  (mean) bit-for-bit although the summation order depends on the memory layout -> 1e-10 relative.

### 7.4 Sensitivity: hand-written mutants (`mutants/<ID>/*.patch`, `tools/mutants.py`)

All of them are caught by the **quick** tier of their property (equivalent mutants found on
the way were deleted: the `start_idx` parity regress in C02, "double only once" for real
banks in C14). Counts: ''' + ", ".join("%s %d" % kv for kv in mut.items()) + " (" + str(sum(mut.values())) + ''' in total).
`tools/mutants.py [ID...]` applies each patch to a scratch copy outside /repo and /verif,
runs the check through `VERIF_REPO`, expects exit 1 and removes the copy.

### 7.5 Sensitivity: breaking changes seeded by independent sub-agents (`seeded/<name>/`)

Eight rounds of twenty fresh sub-agents, a ninth of twelve and a tenth of eight (one per property and round) were given only the
property text and a scratch git worktree under /tmp - nothing from /verif; in the later
rounds also the one-line summaries of the earlier rounds' changes with the instruction to find
something of a different kind - and asked for up to two plausible changes that break the
property, pass the whole test suite and need something specific to manifest. All ''' + str(total) + '''
were confirmed by `tools/verify_seed.py` (patch applies, demo fails with / passes without,
all 752 baseline tests pass with the change) and are kept with `patch.diff`, `demo.py`,
`meta.json`. ''' + str(total - missed) + ''' were caught by the quick tier as it stood when they arrived; **''' + str(missed) + ''' were
missed and led to the strengthenings listed below**, after which all ''' + str(total) + ''' are caught by the
quick tier of their own property (`tools/mutants.py --seeded`). Names `Cxx_n` are round 1,
`Cxx_bn` round 2, `Cxx_cn` round 3 (which also suggested kinds of change: cooperating sites, configuration constants, numeric edge values, argument types, duck-typed streams, shared state between objects, half-updated objects after an error), `Cxx_dn` round 4 (kinds suggested: data-dependent numeric paths such as overflow and non-finite values, sizes beyond an internal block length, optional header fields, file-name conventions, resource handling such as memory maps, interactions of three parameters). Four round-4 seeds (C09_d1, C10_d1, C17_d1, C17_d2) met a working tree that I had already strengthened on my own; the committed checks of that moment missed them and they are counted as misses. Seeds are also re-run at VERIF_SEED 2 and 3; two (C06_c2, C14_b1) were caught at seed 1 but not at seed 3, so the lowered-threshold configurations were made five times more frequent and more extreme (down to 1e-6) and signal lengths on the frame-count boundaries (whole and half multiples of the shift, +-1) are now generated on purpose. `Cxx_en` is round 5, whose brief asked the agent to list the phrases of the statement that no earlier change had touched and to break one of those (25 seeds, 11 first missed - the highest miss rate since round 1, so the steer worked). `Cxx_fn` is round 6 (28 seeds, 11 first missed): the brief asked for cooperating edits, reordered operations, 'equivalent' library calls that differ on ties / empty input, text handling, path forms, aliased results. `Cxx_gn` is round 7 (28 seeds, 10 first missed), whose single theme was the *range* of what a statement quantifies over: unusual but valid dtypes, axis positions, counts, rates, filter orders, file types. `Cxx_hn` is round 8 (21 seeds, 14 first missed - the highest rate of all rounds), with two themes: a change that is right on the main route and wrong on an *alternative route* to the same behaviour (alias, mapping, half=True, in_place, scripted module, compressed stream), and *the third call* (right for every pair of operations, wrong for one order of three). `Cxx_in` is round 9 (12 agents, 12 seeds, 10 first missed): the brief described a harness that already varies everything in the lessons below and asked what it would still not look at. `Cxx_jn` is round 10 (the eight properties left out of round 9, same brief: 8 seeds, 4 first missed).

| seed | change | first quick run | strengthening |
|------|--------|-----------------|---------------|
''' + "\n".join(seeds) + '''

Lessons turned into generator rules (applied across properties, not only where a seed was
missed): (i) objects are *reused* - banks are queried repeatedly, computers process many
utterances, post-/pre-processor objects are applied again, Standardize is applied between
accumulate calls, aliases are resolved before later classes are registered, explicit
objects serve a second computer - so every clause that builds an object optionally gives it
a drawn *history* first; (ii) a few *large* sizes (4 Ki..128 Ki samples, 300-1000 frames)
belong in every length generator because block-wise implementations only differ there;
(iii) identifiers need prefix/substring relations and different lengths; (iv) parameters need
their extreme valid values (octave origin 1e-14 Hz, constant feature columns, offsets 1e3
spreads, seed 0, durations exactly on a boundary); (v) memory layout and byte order are part
of the input (strided / reversed / Fortran-ordered / byte-swapped arrays); (vi) a fork()ed
child is not a fresh process - reseed what a fresh process would have fresh; (vii) state may be
shared *between* objects (class-level attributes, module-level caches, mutable defaults): build
and use *another* object of the same class with different parameters first; (viii) package
constants named by the statements (LOG_FLOOR_VALUE, EFFECTIVE_SUPPORT_THRESHOLD) are varied, so
a value frozen at import time is seen; (ix) whole-number arguments arrive as ints and numpy
scalars too, streams are not only BytesIO / open(path), arrays may be ndarray subclasses and
0-d; (x) after a rejected call the object is used again. A harness lesson: a shared spec
gained a key that leaked into one clause's constructor arguments and silently turned every
case of that clause into a discard - a clause that discards more than 60 % of its cases is now
a harness error. From round 4: (xi) non-finite samples belong in float data wherever the statement's
definition is local (only entries whose reference value is finite are judged); (xii) every internal
block length of the implementation *or of a plausible re-implementation* (2**11 vectors, 2**15
samples, 16 KiB reads) needs sizes beyond it; (xiii) optional fields of a file format are
sometimes left out; (xiv) integer arguments far beyond any array size (shifts of 2**62); (xv)
a value that the default dtype cannot distinguish (the two mu-law zeros) needs a read that can.
From round 5: (xvi) **two invocations of a command are two processes** - in-process calls and fork()ed children share
the string-hash salt, ids and import state of the harness, so a per-process value leaking into the output
(`hash(utt_id)` as a seed) is invisible there; later invocations now also run in a new interpreter with a drawn
PYTHONHASHSEED (`harness/faults/fresh.py`, `cli_crash.run_tool(fresh=...)`); (xvii) finite data at the ends of the
exponent range (2**+-600) and of the integer range (the dtype's minimum itself), with cases whose *defined* value
is not representable discarded rather than judged; (xviii) runs of exact zeros inside a signal; (xix) every phrase
of a statement gets its own path: "loaded statistics" (C16 through a file), "padding" in every numpy mode (C15
Stack), a refused call with another dtype (C04), a second writer to the same path (C17), public attributes
assigned after construction (C20).
From round 6: (xx) **arrays belong to the caller**: a chunk handed to compute_chunk is copied into a re-used buffer
that is overwritten after the call (C01), every array ever given to an instance is compared with a private copy after
every later step, writable or not (C04), and arrays returned by bank queries are post-processed in place before
the judged query (C05-C07, as already in C20); (xxi) widths at which a grid built with a floating-point step miscounts
(`fragile_widths`, about a fifth of all widths: np.arange(0, 1, 1/w) has w+1 points for w = 49, 98, 103 ...) are
drawn on purpose in C06, C07 and C20; (xxii) file and path forms: bare file names relative to the current directory
(C17), directories with blanks / tabs in list files (C09), --file-prefix / --file-suffix (C10), NUL / newline header
padding (C12), statistics written by another program (C16), non-native byte order (C18), the empty string as an
option value (C11); (xxiii) a seed caught at VERIF_SEED 1 but missed at 2 or 3 is a weak catch: six such seeds led to
explicit generators (round-vertex linear banks, Bark banks with 20+ filters, tie lengths for even and odd multiples,
per-frame tolerances in C14, fragile widths) instead of hoping for the draw.
From round 7: (xxiv) **the range of every quantified dimension**: frame shifts above the frame length (C02, C04, C14),
hundreds of filters at 96 kHz (C02 default length), 300 utterances (C10), multi-megabyte and 64-channel files (C12), the
other mu-law file type AU1 (C13), longdouble / float16 / unsigned features (C16, C18), all-digit archive keys (C17),
narrow NumPy integer scalars as arguments (C19). Widening two of these ranges made the checks report **two more genuine
defects of the unmodified library** (F14c: the torch STFT module raised where compute_full returns an empty matrix;
F19a: OctaveScaling computed 2 ** scale in the argument's integer type), both repaired by one-line `fix:` commits; a
third observation - compute_full itself rejects most signals when kaldi_shift is combined with a shift above the
length - is outside every statement's reach (C01 restricts itself to shift <= length, C02/C14 are judged without
kaldi_shift there) and is recorded here only; likewise a short-integration computer handed a 2-D array raises and
stays `started` (the next compute_full is refused until finalize) - no statement speaks about arrays that are not signals,
so the generators use integer samples (rejected cleanly) for "a rejected call, then a call". (xxv) After a `fix:` commit the seeded patches are re-applied to the new
tree; two (C19_1, C14_b1) touched repaired lines and were rebased (both versions are kept).
From round 8: (xxvi) **routes**: objects are also obtained by alias and from configuration mappings (C18, C20), responses
through half=True (C05), files through a decompressing stream (C12), the tool's in-place pre-processing on a recording
beyond one block (C09), a short-integration computer inside the resumable tool (C10); (xxvii) **orders of three**: an
exhaustive clause `request_orders` in C06 and C07 runs every ordered triple of requests over two filters, two or three
widths and the response methods on one bank object per class and compares the last answer with a fresh bank's
(about 30 000 triples in a few seconds - generated warm-ups found such defects only at some seeds); the same idea as
drawn histories elsewhere: load - load+accumulate - load (C16), save - wider save by another writer - save (C17), build -
build a larger sibling - apply (C15), read with a lossy dtype - read (C11), rejected call - call (C03), small chunk -
outsized chunk - rest (C01), assign parameters after use (C19). A harness lesson from this round: one check of a
mutant sat for an hour under load (a 300-utterance case being shrunk), which `tools/mutants.py` now reports as TIMEOUT
instead of dying; the quick tier of C10 starts all its process-bound clauses at once (29 s instead of 62 s) and no longer
shrinks (a failing case is replayed as found).
From round 9: (xxviii) STFT streaming results are judged **frame by frame** (a running sum over the whole signal loses a quiet
passage after a loud one; the column-maximum tolerance of C01 could not see it); (xxix) objects are pickled / deep-copied
before use, flags arrive as 0 / 1 / numpy booleans, public coefficients are assigned after a first use (C18), the same
object filters the same shape along another axis first (C15); (xxx) inputs every generator would call pointless or absurd:
8193 channels (one frame wider than the read size), dot-files named exactly '.npy', one archive shared by all utterances
of a map, a suffix removed from the configurable soundfile set, statistics files memory-mapped through the documented
keyword pass-through. Round 10 added: an abstract family root in the alias forests and a winner that rejects the caller's
arguments (C08), a top edge inside the 1 Hz leeway above Nyquist (C06), signals tracked by autograd (C14), peak 0 (C20).
Two seeds of earlier rounds that were caught only at some VERIF_SEED values got their killing case
added to the replay corpus (corpus/C06/low_order_gammatone_many_periods.json, corpus/C16/constant_coefficient_raw_file.json); three more
(seeded C03_e1 with the hand mutant magnitude_via_squares, C05_f1, C07_2) followed when a last three-seed run of the trimmed quick tiers
missed them at VERIF_SEED 2 (corpus/C03/huge_samples_magnitude_mode.json, corpus/C05/gain_after_scribbled_earlier_result.json,
corpus/C07/seed_C07_2_killing_case.json).

### 7.6 What the record above does and does not show

Every round of independent seeding still produced changes the quick tier of that moment missed (10 of 12 and 4 of 8 in the last two
rounds): the miss rate did not fall, because every brief steered the agents away from what was already covered. What the
numbers show is that the generators now cover every kind of trigger nine rounds of adversarial authors could think of, and
that all ''' + str(total) + ''' filed changes are caught (at VERIF_SEED 1, 2 and 3 for the rounds filed before the last full
regression); they do not show that the next plausible change will be caught. Generated-input search never establishes
absence: the claim per property is the `level` recorded in MANIFEST.json (exploration / fault enumeration over the stated
generators), with the exhaustive sub-spaces named in the evidence files as the only places where "for all" is literal.
Known limits: C10 cannot inject a kill inside a write() system call; worker interleavings are perturbed, not enumerated;
float tolerances are models of round-off stated per property; configurations the unmodified library itself rejects or
mishandles outside any statement (kaldi_shift with a shift above the frame length, 2-D input to a short-integration
computer, HDF5's saturating dtype conversion) are excluded from the generators and named in 7.2-7.5.
'''
p = os.path.join(H, "DESIGN.md")
s = open(p).read()
marker = "\n---------------------------------------------------------------------------------------\n\n## 7. As built"
if marker in s:
    s = s[: s.index(marker)]
open(p, "w").write(s.rstrip("\n") + "\n" + sec)
print("section 7 regenerated: %d fixed, %d seeds (%d first missed), %d mutants" % (len(fixed), total, missed, sum(mut.values())))
