#!/venv/bin/python
"""Confirm a seeded breaking change produced by an independent sub-agent and file it under seeded/.

usage: tools/verify_seed.py <worktree dir> <seed number> [--name NAME] [--skip-tests] [--tier quick|thorough]

Steps (all in a scratch copy of /repo outside /repo and /verif, removed afterwards):
  1. patch applies to the current /repo tree
  2. demo.py exits 0 on /repo and non-zero on the patched tree
  3. the repository's pinned test suite passes exactly as on /repo (stable_pass of BASELINE.json all pass)
  4. ./check <ID> <tier> against the patched tree (VERIF_REPO) -> CAUGHT / MISSED
The seed is stored as seeded/<name>/{patch.diff,demo.py,meta.json} when 1-3 hold.
"""
import json
import os
import shutil
import subprocess
import sys
import tempfile
import xml.etree.ElementTree as ET

H = os.path.dirname(os.path.dirname(os.path.abspath(__file__)))


def sh(cmd, **kw):
    return subprocess.run(cmd, shell=isinstance(cmd, str), capture_output=True, text=True, **kw)


def main(argv):
    wt, n = argv[1], argv[2]
    opts = argv[3:]
    name = None
    tier = "quick"
    if "--name" in opts:
        name = opts[opts.index("--name") + 1]
    if "--tier" in opts:
        tier = opts[opts.index("--tier") + 1]
    sd = os.path.join(wt, "seed%s" % n)
    meta = json.load(open(os.path.join(sd, "meta.json")))
    pid = meta["property"].strip().upper()
    name = name or "%s_%s" % (pid, n)
    td = tempfile.mkdtemp(prefix="verif_seed_")
    result = {"patch_applies": False}
    try:
        shutil.copytree("/repo/src", os.path.join(td, "src"))
        shutil.copytree("/repo/tests", os.path.join(td, "tests"))
        for f in ("setup.cfg", "pyproject.toml", "tox.ini"):
            if os.path.exists(os.path.join("/repo", f)):
                shutil.copy(os.path.join("/repo", f), td)
        r = sh(["patch", "-p1", "-s", "-d", td, "-i", os.path.join(sd, "patch.diff")])
        if r.returncode != 0:
            print("PATCH FAILED", r.stdout, r.stderr)
            return 1
        result["patch_applies"] = True
        env0 = dict(os.environ, PYTHONPATH="/repo/src", PYTHONHASHSEED="0")
        env1 = dict(os.environ, PYTHONPATH=os.path.join(td, "src"), PYTHONHASHSEED="0")
        d0 = sh(["/venv/bin/python", os.path.join(sd, "demo.py")], env=env0, cwd=td, timeout=900)
        d1 = sh(["/venv/bin/python", os.path.join(sd, "demo.py")], env=env1, cwd=td, timeout=900)
        result["demo_on_repo_rc"] = d0.returncode
        result["demo_on_patched_rc"] = d1.returncode
        result["demo_on_patched_tail"] = (d1.stdout + d1.stderr)[-400:]
        print("demo: repo rc=%d, patched rc=%d" % (d0.returncode, d1.returncode))
        if d0.returncode != 0 or d1.returncode == 0:
            print("DEMO NOT CONFIRMED\n--- repo:\n%s\n--- patched:\n%s" % ((d0.stdout + d0.stderr)[-800:], (d1.stdout + d1.stderr)[-800:]))
            return 1
        if "--skip-tests" not in opts:
            base = json.load(open("/root/.vp/BASELINE.json"))
            xml = os.path.join(td, "r.xml")
            cmd = "cd %s && /venv/bin/python -m pytest -ra -q -p no:cacheprovider --timeout=900 --continue-on-collection-errors --junitxml=%s" % (td, xml)
            sh(cmd, env=env1)
            passed = set()
            for tc in ET.parse(xml).getroot().iter("testcase"):
                if not any(ch.tag in ("failure", "error", "skipped") for ch in tc):
                    passed.add("%s::%s" % (tc.get("classname"), tc.get("name")))
            missing = sorted(set(base["stable_pass"]) - passed)
            result["tests_passed"] = len(passed)
            result["tests_missing_from_baseline"] = missing
            print("tests: %d passed, %d of the baseline missing" % (len(passed), len(missing)))
            if missing:
                print("SEED BREAKS EXISTING TESTS:", missing[:10])
                return 1
        env2 = dict(os.environ, VERIF_REPO=td)
        c = sh([os.path.join(H, "check"), pid, tier], env=env2, cwd=H, timeout=7200)
        out = c.stdout + c.stderr
        caught = c.returncode == 1 and ("VIOLATION property=%s" % pid) in out
        result["check_tier"] = tier
        result["check_rc"] = c.returncode
        result["caught"] = caught
        first = [l.strip() for l in out.splitlines() if l.startswith("  ") and ": " in l and not l.strip().startswith("case:")]
        result["check_message"] = first[0][:400] if first else ""
        print("%s by ./check %s %s: %s" % ("CAUGHT" if caught else "MISSED(rc=%d)" % c.returncode, pid, tier, result["check_message"][:200]))
        if c.returncode not in (0, 1):
            print(out[-2000:])
        dest = os.path.join(H, "seeded", name)
        os.makedirs(dest, exist_ok=True)
        shutil.copy(os.path.join(sd, "patch.diff"), dest)
        shutil.copy(os.path.join(sd, "demo.py"), dest)
        meta["confirmed_by_me"] = result
        meta["base_commit"] = sh("git -C /repo rev-parse --short HEAD").stdout.strip()
        json.dump(meta, open(os.path.join(dest, "meta.json"), "w"), indent=1)
        return 0 if caught else 3
    finally:
        shutil.rmtree(td, ignore_errors=True)


if __name__ == "__main__":
    sys.exit(main(sys.argv))
