"""Shared Hypothesis strategies and builders.

Every strategy yields plain JSON values (dict/list/int/float/str/bool/None) so that a case
is its own replay file; `build_*` functions turn a spec into live objects by *explicit*
construction (never through the alias registry, which is the subject of C08).
"""
import math

import numpy as np
from hypothesis import strategies as st

from . import core  # noqa: F401  (sets sys.path for the repo)

# --------------------------------------------------------------------------- floats


def floats(lo, hi):
    return st.floats(min_value=lo, max_value=hi, allow_nan=False, allow_infinity=False)


def log_uniform(lo_exp, hi_exp):
    return floats(lo_exp, hi_exp).map(lambda u: 10.0 ** u)


# --------------------------------------------------------------------------- scales


def scale_specs(octave_low_max=1000.0, allow_octave=True, octave_low_min_exp=-3):
    opts = [
        st.just({"alias": "mel"}),
        st.just({"alias": "bark"}),
        st.builds(
            lambda lo, sl: {"alias": "linear", "low_hz": lo, "slope_hz": sl},
            st.one_of(st.just(0.0), floats(-1000, 1000), st.integers(-100, 100).map(float)),
            st.one_of(st.just(1.0), log_uniform(-3, 3)),
        ),
    ]
    if allow_octave:
        opts.append(
            st.builds(
                lambda lo: {"alias": "octave", "low_hz": lo},
                st.one_of(log_uniform(octave_low_min_exp, math.log10(octave_low_max)), st.sampled_from([1.0, 20.0, 50.0])),
            )
        )
    return st.one_of(*opts)


def build_scale(spec):
    from pydrobert.speech import scales

    a = spec["alias"]
    if a == "mel":
        return scales.MelScaling()
    if a == "bark":
        return scales.BarkScaling()
    if a == "linear":
        return scales.LinearScaling(spec["low_hz"], spec.get("slope_hz", 1.0))
    if a == "octave":
        return scales.OctaveScaling(spec["low_hz"])
    raise core.HarnessError("unknown scale spec %r" % (spec,))


# --------------------------------------------------------------------------- signals

SIGNAL_KINDS = ["noise", "noise", "noise", "zeros", "impulse", "const", "sine", "tiny", "step", "loud_quiet", "gated"]


EXTREME_KINDS = ["huge", "minuscule"]  # finite data near the ends of the exponent range (opt-in per clause)


def signal_specs(n_strategy, kinds=None):
    return st.builds(
        lambda n, kind, seed, scale, layout: {"n": n, "kind": kind, "seed": seed, "scale": scale, "layout": layout},
        n_strategy,
        st.sampled_from(list(kinds or SIGNAL_KINDS)),
        st.integers(0, 2 ** 32 - 1),
        st.sampled_from([1.0, 1.0, 100.0, 1e-3, 3e4]),
        # memory layout of the array handed to the code under test (same values)
        st.sampled_from(["contig"] * 5 + ["strided", "reversed"]),
    )


def make_signal(spec, dtype=np.float64, n=None):
    n = spec["n"] if n is None else n
    kind = spec["kind"]
    rng = np.random.Generator(np.random.PCG64(spec["seed"]))
    scale = spec.get("scale", 1.0)
    if kind == "noise":
        x = rng.standard_normal(n) * scale
    elif kind == "zeros":
        x = np.zeros(n)
    elif kind == "impulse":
        x = np.zeros(n)
        if n:
            x[int(rng.integers(0, n))] = scale
    elif kind == "const":
        x = np.full(n, scale)
    elif kind == "sine":
        w = rng.uniform(0.01, math.pi)
        x = scale * np.sin(w * np.arange(n) + rng.uniform(0, 6.28))
    elif kind == "tiny":
        x = rng.standard_normal(n) * 1e-9
    elif kind in ("huge", "minuscule"):
        # finite, but squares of the samples overflow / underflow: 2**+-600 in double, 2**+-60 in single, 2**+-6 in half
        e = {2: 6, 4: 60}.get(np.dtype(dtype).itemsize, 600)
        x = rng.standard_normal(n) * 2.0 ** (e if kind == "huge" else -e)
    elif kind == "loud_quiet":
        # large dynamic range over time: a loud first part, then a part ~90 dB lower (still far above round-off)
        x = rng.standard_normal(n) * scale
        x[: n // 2] *= 3e4 if np.dtype(dtype).itemsize > 2 else 100.0  # half precision overflows at 65504
    elif kind == "very_loud_quiet":
        # (opt-in) nine orders of magnitude between the first and the second half: sums running over the whole signal
        # lose the quiet part completely, sums taken per frame do not
        x = rng.standard_normal(n) * 1e-3
        x[: n // 2] *= 1e9 if np.dtype(dtype).itemsize > 4 else 1e4
    elif kind == "gated":
        # noise with one or two runs of exact zeros (digital silence, zero padding, a noise gate)
        x = rng.standard_normal(n) * scale
        for _ in range(int(rng.integers(1, 3))):
            if n:
                a = int(rng.integers(0, n))
                x[a : a + int(rng.integers(max(1, n // 8), n // 2 + 2))] = 0.0
    elif kind == "step":
        x = np.zeros(n)
        if n:
            x[int(rng.integers(0, n)) :] = scale
    else:
        raise core.HarnessError("unknown signal kind %r" % kind)
    x = np.ascontiguousarray(x.astype(dtype))
    layout = spec.get("layout", "contig")
    if layout == "strided":
        big = np.full(2 * n + 1, 7.5, dtype=dtype)
        big[::2][:n] = x
        x = big[::2][:n]
    elif layout == "reversed":
        x = np.ascontiguousarray(x[::-1])[::-1]
    return x


def compositions(n, cuts):
    """cuts: sorted list of cut points in [0, n] (duplicates give empty chunks)."""
    pts = [0] + sorted(min(max(c, 0), n) for c in cuts) + [n]
    return [pts[i + 1] - pts[i] for i in range(len(pts) - 1)]


# --------------------------------------------------------------------------- banks

BANK_KINDS = ["tri", "fbank", "gabor", "gammatone"]
RATES = [1000, 2000, 8000, 11025, 16000, 22050, 44100]


@st.composite
def bank_specs(draw, kinds=BANK_KINDS, rates=RATES, max_filts=12, min_filts=1, allow_l2=True,
               orders=(1, 2, 3, 4, 5, 6), min_width_frac=0.0):
    """A *valid* bank configuration, constructed (never filtered):
    0 <= low < high <= floor(rate/2) or high=None; octave scales start at or below low_hz > 0."""
    kind = draw(st.sampled_from(kinds))
    rate = draw(st.sampled_from(rates))
    nyq = rate // 2  # three of the four classes validate against rate // 2
    num_filts = draw(st.integers(min_filts, max_filts))
    # range: fraction of nyquist, integer or non-integer edges
    lo_frac = draw(st.one_of(st.just(0.0), floats(0.0, 0.6), st.just(20.0 / nyq)))
    width_frac = draw(st.one_of(floats(max(0.05, min_width_frac), 1.0), st.just(1.0)))
    low = lo_frac * nyq
    high = min(nyq, low + max(width_frac * (nyq - low), 2.0 * (num_filts + 1) * rate * 4e-4 + 1.0))
    if draw(st.booleans()):
        low = float(math.floor(low))
        high = float(max(math.floor(high), low + 1))
    high = min(float(high), float(nyq))
    if high <= low:
        low = max(0.0, high - 1.0)
    high_none = draw(st.sampled_from([False, False, True]))
    spec = {"alias": kind, "num_filts": num_filts, "low_hz": float(low),
            "high_hz": None if high_none else float(high), "sampling_rate": rate}
    if kind != "fbank":
        sc = draw(scale_specs())
        if sc["alias"] == "octave":
            # octave scale: low_hz must be positive and not below the scale's own origin
            if spec["low_hz"] < 1.0:
                spec["low_hz"] = float(draw(st.sampled_from([1.0, 10.0, 20.0, 50.0])))
                # (keep the minimum width of the range: a band of 1e-10 Hz is constructible but its filters are 1e13 samples long)
                if spec["high_hz"] is not None and spec["high_hz"] < spec["low_hz"] + 2.0 * (num_filts + 1) * rate * 4e-4 + 1.0:
                    spec["high_hz"] = float(nyq)
            sc = {"alias": "octave", "low_hz": min(sc["low_hz"], spec["low_hz"])}
        spec["scale"] = sc
    if kind in ("tri", "fbank"):
        spec["analytic"] = draw(st.booleans())
    if kind in ("gabor", "gammatone"):
        spec["erb"] = draw(st.booleans())
        l2_ok = allow_l2 is True or (allow_l2 == "gabor" and kind == "gabor")
        spec["scale_l2_norm"] = draw(st.booleans()) if l2_ok else False
    if kind == "gammatone":
        spec["order"] = draw(st.sampled_from(list(orders)))
        spec["max_centered"] = draw(st.booleans())
    # how whole-number parameters are passed: as floats (usual), as Python ints, or as numpy scalars
    # ... or the whole bank is built from its configuration mapping (alias route), as configuration files do
    spec["numtype"] = draw(st.sampled_from(["float", "float", "float", "int", "numpy", "mapping"]))
    return spec


def build_bank(spec):
    from pydrobert.speech import filters

    kind = spec["alias"]
    kw = dict(num_filts=spec["num_filts"], high_hz=spec["high_hz"], low_hz=spec["low_hz"],
              sampling_rate=spec["sampling_rate"])
    nt = spec.get("numtype", "float")
    if nt == "mapping":
        from pydrobert.speech.alias import alias_factory_subclass_from_arg

        return alias_factory_subclass_from_arg(filters.LinearFilterBank, bank_config(spec))
    if nt != "float":
        for k in ("low_hz", "high_hz", "sampling_rate"):
            v = kw[k]
            if v is not None and float(v) == int(v):
                kw[k] = int(v) if nt == "int" else (np.int64(int(v)) if k != "sampling_rate" else np.float64(v))
        if nt == "numpy":
            kw["num_filts"] = int(kw["num_filts"])
    # flags arrive as Python bools, or (with the other argument types) as 0 / 1 and as numpy booleans (the result of a
    # comparison or of np.any): a flag is whatever is truthy
    flag = (lambda k: bool(spec.get(k, False))) if nt == "float" else (
        (lambda k: int(bool(spec.get(k, False)))) if nt == "int" else (lambda k: np.bool_(bool(spec.get(k, False)))))
    if kind == "tri":
        return filters.TriangularOverlappingFilterBank(build_scale(spec["scale"]), analytic=flag("analytic"), **kw)
    if kind == "fbank":
        return filters.Fbank(analytic=flag("analytic"), **kw)
    if kind == "gabor":
        return filters.GaborFilterBank(build_scale(spec["scale"]), scale_l2_norm=flag("scale_l2_norm"), erb=flag("erb"), **kw)
    if kind == "gammatone":
        return filters.ComplexGammatoneFilterBank(
            build_scale(spec["scale"]), order=spec.get("order", 4), max_centered=flag("max_centered"),
            scale_l2_norm=flag("scale_l2_norm"), erb=flag("erb"), **kw)
    raise core.HarnessError("unknown bank kind %r" % kind)


def ref_scale_fwd(spec, f):
    """Own forward scale formulas (from the cited papers), independent of scales.py."""
    a = spec["alias"]
    if a == "mel":
        return 1127.0 * math.log1p(f / 700.0)
    if a == "bark":
        z = 26.81 * f / (1960.0 + f) - 0.53
        if z < 2:
            return z + 0.15 * (2 - z)
        if z > 20.1:
            return z + 0.22 * (z - 20.1)
        return z
    if a == "linear":
        return (f - spec["low_hz"]) * spec.get("slope_hz", 1.0)
    if a == "octave":
        return math.log2(f / spec["low_hz"])
    raise core.HarnessError(a)


def ref_scale_inv(spec, s):
    a = spec["alias"]
    if a == "mel":
        return 700.0 * math.expm1(s / 1127.0)
    if a == "bark":
        if s < 2:
            z = (s - 0.3) / 0.85
        elif s > 20.1:
            z = (s + 4.422) / 1.22
        else:
            z = s
        return 1960.0 * (z + 0.53) / (26.28 - z)
    if a == "linear":
        return s / spec.get("slope_hz", 1.0) + spec["low_hz"]
    if a == "octave":
        return spec["low_hz"] * 2.0 ** s
    raise core.HarnessError(a)


def bank_scale_spec(spec):
    return {"alias": "mel"} if spec["alias"] == "fbank" else spec["scale"]


def ref_edges(spec, half_offset):
    """Points scale^-1(s_lo + (j + half_offset) * delta): half_offset 0 -> tri/fbank vertices
    (j = 0..n+1), 0.5 -> Gabor/gammatone filter edges (j = 0..n)."""
    sc = bank_scale_spec(spec)
    rate = spec["sampling_rate"]
    if spec["alias"] == "tri":
        high = spec["high_hz"] if spec["high_hz"] is not None else rate / 2
        high = min(high, rate / 2)
    else:
        high = spec["high_hz"] if spec["high_hz"] is not None else rate // 2
    n = spec["num_filts"]
    s_lo, s_hi = ref_scale_fwd(sc, spec["low_hz"]), ref_scale_fwd(sc, high)
    d = (s_hi - s_lo) / (n + 1)
    count = n + 2 if half_offset == 0 else n + 1
    return [ref_scale_inv(sc, s_lo + (j + half_offset) * d) for j in range(count)]


def gammatone_alpha(spec, left, right):
    """Own derivation of the gammatone bandwidth parameter (radians/sample) for a filter between
    two edges (Hz): 3 dB points at the edges (erb=False) or ERB equal to the edge spacing."""
    n = spec.get("order", 4)
    B = (right - left) * 2 * math.pi / spec["sampling_rate"]
    if spec.get("erb"):
        return B * 2.0 ** (2 * n - 2) * math.factorial(n - 1) ** 2 / (math.pi * math.factorial(2 * n - 2))
    return (B / 2) / math.sqrt(2.0 ** (1.0 / n) - 1)


def gammatone_degenerate(spec, thr):
    """L2-normalised gammatone whose peak gain is below the threshold (empty effective support)."""
    if spec["alias"] != "gammatone" or not spec.get("scale_l2_norm"):
        return False
    n = spec.get("order", 4)
    edges = ref_edges(spec, 0.5)
    for l, r in zip(edges[:-1], edges[1:]):
        a = gammatone_alpha(spec, l, r)
        if a <= 0:
            return True
        c = math.sqrt((2 * a) ** (2 * n - 1) / math.factorial(2 * n - 2))
        if c * math.factorial(n - 1) / a ** n <= thr * 1.0000001:
            return True
    return False


def gabor_degenerate(spec, thr):
    """True when some Gabor filter's whole impulse response lies below the effective-support
    threshold (peak 1/(std*sqrt(2*pi)) < thr, or the L2 analogue): the bank has a filter with
    an empty effective support, outside the statements' 'valid/constructible' banks."""
    if spec["alias"] != "gabor":
        return False
    edges = ref_edges(spec, 0.5)
    rate = spec["sampling_rate"]
    bw_const = math.sqrt(math.pi) / 2 if spec.get("erb") else math.sqrt(0.3 * math.log(10))
    for l, r in zip(edges[:-1], edges[1:]):
        half_ang = (r - l) / 2 * 2 * math.pi / rate
        if half_ang <= 0:
            return True
        std = bw_const / half_ang
        if spec.get("scale_l2_norm"):
            peak = std ** -0.5 * math.pi ** -0.25
        else:
            peak = 1.0 / (std * math.sqrt(2 * math.pi))
        if peak <= thr * 1.0000001:
            return True
    return False


# --------------------------------------------------------------------------- windows

def window_specs():
    return st.one_of(
        st.sampled_from([{"alias": "hann"}, {"alias": "hamming"}, {"alias": "blackman"}, {"alias": "bartlett"}]),
        st.builds(lambda o, p: {"alias": "gamma", "order": o, "peak": p}, st.integers(1, 6), floats(0.5, 0.95)),
    )


def build_window(spec):
    from pydrobert.speech import filters

    a = spec["alias"]
    if a == "hann":
        return filters.HannWindow()
    if a == "hamming":
        return filters.HammingWindow()
    if a == "blackman":
        return filters.BlackmanWindow()
    if a == "bartlett":
        return filters.BartlettWindow()
    if a == "gamma":
        return filters.GammaWindow(order=spec["order"], peak=spec["peak"])
    raise core.HarnessError("unknown window %r" % a)


# --------------------------------------------------------------------------- computers

def ms_for(samples, rate):
    """A millisecond value that the constructor's int(0.001*ms*rate) maps back to `samples`
    (the +0.5 sample margin keeps float round-off from flooring to samples-1)."""
    return (samples + 0.5) * 1000.0 / rate


@st.composite
def stft_specs(draw, bank=None, max_len=64, rates=(1000,), default_len=False):
    b = draw(bank if bank is not None else bank_specs(rates=list(rates), max_filts=4, allow_l2="gabor"))
    L = draw(st.one_of(st.integers(1, max_len), st.integers(1, 12), st.sampled_from([2, 3, 4, 5, 8, 16, 25, 32])))
    S = draw(st.one_of(st.integers(1, L), st.integers(1, max(1, L // 2)), st.just(L), st.just(1)))
    style = draw(st.sampled_from(["causal", "centered", "centered", None]))
    spec = {
        "kind": "stft",
        "bank": b,
        "L": None if default_len else L,
        "S": S,
        "frame_style": style,
        "include_energy": draw(st.booleans()),
        "pad": draw(st.booleans()),
        "window": draw(st.one_of(st.none(), window_specs())),
        "use_log": draw(st.booleans()),
        "use_power": draw(st.booleans()),
        "kaldi_shift": draw(st.booleans()),
        # constructor arguments given by keyword (usual) or positionally, in the documented order
        "positional": draw(st.sampled_from([False, False, False, True])),
    }
    return spec


def build_stft(spec, bank=None):
    from pydrobert.speech.compute import ShortTimeFourierTransformFrameComputer as STFT

    bank = build_bank(spec["bank"]) if bank is None else bank
    rate = spec["bank"]["sampling_rate"]
    if spec.get("positional"):
        # documented order: bank, frame_length_ms, frame_shift_ms, frame_style, include_energy,
        # pad_to_nearest_power_of_two, window_function, use_log, use_power, kaldi_shift
        return STFT(bank, None if spec["L"] is None else ms_for(spec["L"], rate), ms_for(spec["S"], rate), spec["frame_style"],
                    spec["include_energy"], spec["pad"], None if spec["window"] is None else build_window(spec["window"]),
                    spec["use_log"], spec["use_power"], spec["kaldi_shift"])
    return STFT(
        bank,
        frame_length_ms=None if spec["L"] is None else ms_for(spec["L"], rate),
        frame_shift_ms=ms_for(spec["S"], rate),
        frame_style=spec["frame_style"],
        include_energy=spec["include_energy"],
        pad_to_nearest_power_of_two=spec["pad"],
        window_function=None if spec["window"] is None else build_window(spec["window"]),
        use_log=spec["use_log"],
        use_power=spec["use_power"],
        kaldi_shift=spec["kaldi_shift"],
    )


@st.composite
def si_specs(draw, bank=None, rates=(1000,)):
    b = draw(bank if bank is not None else bank_specs(rates=list(rates), max_filts=3, allow_l2="gabor"))
    spec = {
        "kind": "si",
        "bank": b,
        # frame shift: an absolute wish and a fraction of the admissible range; build_si clips it
        "S": draw(st.one_of(st.integers(1, 40), st.integers(1, 6))),
        "S_top": draw(st.sampled_from([False, False, False, True])),  # use the largest admissible shift
        "frame_style": draw(st.sampled_from(["causal", "centered", None])),
        "include_energy": draw(st.booleans()),
        "pad": draw(st.booleans()),
        "window": draw(st.one_of(st.none(), window_specs())),
        "use_power": draw(st.booleans()),
        "use_log": draw(st.booleans()),
        "positional": draw(st.sampled_from([False, False, False, True])),
    }
    return spec


def si_shift_bound(bank):
    """Largest frame shift + 1 admitted by *every* reading of 'shorter than the longest filter's
    one-sided support' (from sample 0 / from the support's centre), from public attributes."""
    sup = bank.supports
    from_zero = max(r for l, r in sup)
    from_centre = max((r - l) // 2 for l, r in sup)
    return min(from_zero, from_centre)


def effective_si_shift(spec, bank):
    bound = si_shift_bound(bank)
    if bound < 2:
        raise core.Discard()
    return bound - 1 if spec.get("S_top") else min(spec["S"], bound - 1)


def build_si(spec, bank=None):
    from pydrobert.speech.compute import ShortIntegrationFrameComputer as SI

    bank = build_bank(spec["bank"]) if bank is None else bank
    S = effective_si_shift(spec, bank)
    rate = spec["bank"]["sampling_rate"]
    if spec.get("positional"):
        # documented order: bank, frame_shift_ms, frame_style, include_energy, pad_to_nearest_power_of_two,
        # window_function, use_power, use_log
        return SI(bank, ms_for(S, rate), spec["frame_style"], spec["include_energy"], spec["pad"],
                  None if spec["window"] is None else build_window(spec["window"]), spec["use_power"], spec["use_log"])
    comp = SI(
        bank,
        frame_shift_ms=ms_for(S, rate),
        frame_style=spec["frame_style"],
        include_energy=spec["include_energy"],
        pad_to_nearest_power_of_two=spec["pad"],
        window_function=None if spec["window"] is None else build_window(spec["window"]),
        use_power=spec["use_power"],
        use_log=spec["use_log"],
    )
    return comp


def computer_specs():
    return st.one_of(stft_specs(), si_specs())


def build_computer(spec, bank=None):
    return build_stft(spec, bank) if spec["kind"] == "stft" else build_si(spec, bank)


@st.composite
def cut_lists(draw, n, L=8, S=4, max_cuts=8):
    """Cut points in [0, n]; duplicates give empty chunks; weight on 0, n and frame boundaries."""
    special = [0, n, 1, n - 1, L, S, L // 2, L // 2 + 1, L - 1, L + 1, 2 * S, S + 1, S - 1]
    special = [c for c in special if 0 <= c <= n]
    k = draw(st.integers(0, max_cuts))
    cuts = draw(st.lists(st.one_of(st.integers(0, max(n, 0)), st.sampled_from(special or [0])), min_size=k, max_size=k))
    if draw(st.sampled_from([False, False, False, True])) and n > 0:
        # a run of single-sample chunks
        a = draw(st.integers(0, n - 1))
        cuts += list(range(a, min(n, a + draw(st.integers(1, 6))) + 1))
    return sorted(cuts)


# --------------------------------------------------------------------------- alias configs (CLI / JSON)

def scale_config(spec):
    d = {"alias": spec["alias"]}
    for k in ("low_hz", "slope_hz"):
        if k in spec:
            d[k] = spec[k]
    return d


def bank_config(spec, alias_key="alias"):
    names = {"tri": "triangular", "fbank": "fbank", "gabor": "gabor", "gammatone": "gammatone"}
    d = {alias_key: names[spec["alias"]], "num_filts": spec["num_filts"], "low_hz": spec["low_hz"],
         "high_hz": spec["high_hz"], "sampling_rate": spec["sampling_rate"]}
    if "scale" in spec:
        d["scaling_function"] = scale_config(spec["scale"])
    for k in ("analytic", "erb", "scale_l2_norm", "order", "max_centered"):
        if k in spec:
            d[k] = spec[k]
    return d


def window_config(spec):
    if spec is None:
        return None
    if spec["alias"] == "gamma":
        return {"alias": "gamma", "order": spec["order"], "peak": spec["peak"]}
    return spec["alias"]


def computer_config(spec, alias_key="alias"):
    """The alias/JSON configuration equivalent to build_computer(spec) (same ms values)."""
    rate = spec["bank"]["sampling_rate"]
    if spec["kind"] == "stft":
        d = {alias_key: "stft", "bank": bank_config(spec["bank"]),
             "frame_length_ms": None if spec["L"] is None else ms_for(spec["L"], rate),
             "frame_shift_ms": ms_for(spec["S"], rate), "frame_style": spec["frame_style"],
             "include_energy": spec["include_energy"], "pad_to_nearest_power_of_two": spec["pad"],
             "use_log": spec["use_log"], "use_power": spec["use_power"], "kaldi_shift": spec["kaldi_shift"]}
    else:
        S = effective_si_shift(spec, build_bank(spec["bank"]))
        d = {alias_key: "si", "bank": bank_config(spec["bank"]), "frame_shift_ms": ms_for(S, rate),
             "frame_style": spec["frame_style"], "include_energy": spec["include_energy"],
             "pad_to_nearest_power_of_two": spec["pad"], "use_log": spec["use_log"], "use_power": spec["use_power"]}
    w = window_config(spec["window"])
    if w is not None:
        d["window_function"] = w
    return d


# --------------------------------------------------------------------------- package configuration

import contextlib
import functools


@contextlib.contextmanager
def config_overrides(values):
    """Temporarily set attributes of pydrobert.speech.config (the statements refer to LOG_FLOOR_VALUE and
    EFFECTIVE_SUPPORT_THRESHOLD by name: they are user-settable package constants, not literals)."""
    from pydrobert.speech import config

    old = {}
    try:
        for k, v in (values or {}).items():
            old[k] = getattr(config, k)
            setattr(config, k, v)
        yield
    finally:
        for k, v in old.items():
            setattr(config, k, v)


def with_config(check):
    """Wrap a check so that case["config"] (a dict of config attribute -> value, or None) is in force."""

    @functools.wraps(check)
    def wrapped(case):
        with config_overrides(case.get("config") if isinstance(case, dict) else None):
            return check(case)

    return wrapped


def log_floor_configs():
    return st.one_of(st.none(), st.none(), st.none(), st.sampled_from([{"LOG_FLOOR_VALUE": 1e-3}, {"LOG_FLOOR_VALUE": 1e-9}, {"LOG_FLOOR_VALUE": 0.25}]))


@st.composite
def round_linear_tri_specs(draw):
    """Triangular banks on a linear scale with round vertices: DFT bins of power-of-two (and other round) widths fall exactly on
    the vertices of the triangles - the ties of every 'hz < mid / hz > mid' style comparison."""
    rate = draw(st.sampled_from([8000, 16000]))
    n = draw(st.sampled_from([3, 7, 15, 9, 4]))
    high = draw(st.sampled_from([rate / 2, rate / 4, 3000.0]))
    low = draw(st.sampled_from([0.0, 0.0, 1000.0, 500.0]))
    if high <= low:
        low = 0.0
    return {"alias": "tri", "num_filts": n, "low_hz": float(low), "high_hz": float(high), "sampling_rate": rate,
            "scale": {"alias": "linear", "low_hz": 0.0, "slope_hz": 1.0}, "analytic": draw(st.booleans()), "numtype": "float"}




def fragile_widths(top=5000):
    return st.sampled_from(fragile_width_list(top))


def fragile_width_list(top=5000):
    """Buffer widths at which a grid built with a floating-point step (np.arange(0, 1, 1/w), np.arange(0, 2 pi, 2 pi/w),
    or the same including the end point) has one point too many or too few - about a fifth of all widths. Code that
    sizes a buffer from such a grid is right for every other width, so these are drawn on purpose."""
    global _FRAGILE
    if _FRAGILE is None or _FRAGILE[0] != top:
        two_pi = 2 * np.pi
        ws = [w for w in range(2, top)
              if len(np.arange(0, 1, 1 / w)) != w or len(np.arange(0.0, two_pi, two_pi / w)) != w
              or len(np.arange(0.0, two_pi + two_pi / (w - 1), two_pi / (w - 1))) != w]
        _FRAGILE = (top, ws)
    return _FRAGILE[1]


_FRAGILE = None


def tame_threshold_case(case):
    """A first-order gammatone filter decays like exp(-alpha t) only: at a threshold of 1e-5 or below its temporal support
    (and the time the constructor spends searching for it) grows to seconds per bank. Such cases get order 2."""
    cfg = case.get("config") or {}
    bank = case.get("bank") or {}
    if cfg.get("EFFECTIVE_SUPPORT_THRESHOLD", 1.0) <= 1e-5 and bank.get("alias") == "gammatone" and bank.get("order", 4) < 2:
        case = dict(case, bank=dict(bank, order=2))
    return case


def threshold_configs():
    # default twice in three; otherwise raised (1e-3, 2e-3) or lowered (1e-4 .. 1e-6: a value frozen at import time
    # then cuts hundreds of thresholds too early)
    return st.one_of(st.none(), st.none(), st.sampled_from([{"EFFECTIVE_SUPPORT_THRESHOLD": v} for v in (1e-3, 1e-4, 2e-3, 1e-5, 1e-6)]))
