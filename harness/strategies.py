"""Shared Hypothesis strategies and builders.

Every strategy yields plain JSON values (dict/list/int/float/str/bool/None) so that a case
is its own replay file; `build_*` functions turn a spec into live objects by *explicit*
construction (never through the alias registry, which is the subject of C08).
"""
import math

import numpy as np
from hypothesis import strategies as st

from . import core  # noqa: F401  (sets sys.path for the repo)

# --------------------------------------------------------------------------- floats


def floats(lo, hi):
    return st.floats(min_value=lo, max_value=hi, allow_nan=False, allow_infinity=False)


def log_uniform(lo_exp, hi_exp):
    return floats(lo_exp, hi_exp).map(lambda u: 10.0 ** u)


# --------------------------------------------------------------------------- scales


def scale_specs(octave_low_max=1000.0, allow_octave=True):
    opts = [
        st.just({"alias": "mel"}),
        st.just({"alias": "bark"}),
        st.builds(
            lambda lo, sl: {"alias": "linear", "low_hz": lo, "slope_hz": sl},
            st.one_of(st.just(0.0), floats(-1000, 1000), st.integers(-100, 100).map(float)),
            st.one_of(st.just(1.0), log_uniform(-3, 3)),
        ),
    ]
    if allow_octave:
        opts.append(
            st.builds(
                lambda lo: {"alias": "octave", "low_hz": lo},
                st.one_of(log_uniform(-3, math.log10(octave_low_max)), st.sampled_from([1.0, 20.0, 50.0])),
            )
        )
    return st.one_of(*opts)


def build_scale(spec):
    from pydrobert.speech import scales

    a = spec["alias"]
    if a == "mel":
        return scales.MelScaling()
    if a == "bark":
        return scales.BarkScaling()
    if a == "linear":
        return scales.LinearScaling(spec["low_hz"], spec.get("slope_hz", 1.0))
    if a == "octave":
        return scales.OctaveScaling(spec["low_hz"])
    raise core.HarnessError("unknown scale spec %r" % (spec,))


# --------------------------------------------------------------------------- signals

SIGNAL_KINDS = ["noise", "noise", "noise", "zeros", "impulse", "const", "sine", "tiny", "step"]


def signal_specs(n_strategy):
    return st.builds(
        lambda n, kind, seed, scale: {"n": n, "kind": kind, "seed": seed, "scale": scale},
        n_strategy,
        st.sampled_from(SIGNAL_KINDS),
        st.integers(0, 2 ** 32 - 1),
        st.sampled_from([1.0, 1.0, 100.0, 1e-3, 3e4]),
    )


def make_signal(spec, dtype=np.float64, n=None):
    n = spec["n"] if n is None else n
    kind = spec["kind"]
    rng = np.random.Generator(np.random.PCG64(spec["seed"]))
    scale = spec.get("scale", 1.0)
    if kind == "noise":
        x = rng.standard_normal(n) * scale
    elif kind == "zeros":
        x = np.zeros(n)
    elif kind == "impulse":
        x = np.zeros(n)
        if n:
            x[int(rng.integers(0, n))] = scale
    elif kind == "const":
        x = np.full(n, scale)
    elif kind == "sine":
        w = rng.uniform(0.01, math.pi)
        x = scale * np.sin(w * np.arange(n) + rng.uniform(0, 6.28))
    elif kind == "tiny":
        x = rng.standard_normal(n) * 1e-9
    elif kind == "step":
        x = np.zeros(n)
        if n:
            x[int(rng.integers(0, n)) :] = scale
    else:
        raise core.HarnessError("unknown signal kind %r" % kind)
    return np.ascontiguousarray(x.astype(dtype))


def compositions(n, cuts):
    """cuts: sorted list of cut points in [0, n] (duplicates give empty chunks)."""
    pts = [0] + sorted(min(max(c, 0), n) for c in cuts) + [n]
    return [pts[i + 1] - pts[i] for i in range(len(pts) - 1)]
