"""Fork-based kill / interrupt injection for signals-to-torch-feat-dir (C10).

The parent has torch imported once; every tool run happens in a fork()ed child that patches
`torch.save` and the `print` used for manifest lines *in the child only*. A crash point is
(k, phase, kind):

  k      index (0-based, within this run) of the torch.save call / manifest line
  phase  before_save | mid_write | after_save | after_manifest | in_compute (while the k-th utterance of
         this run is being fetched / computed by the dataset, main process only)
  kind   hard  -> os._exit(137): user-space buffers are lost exactly as under SIGKILL
         soft  -> KeyboardInterrupt raised at that point; the interpreter unwinds normally

The child reports what it did through a pipe (number of completed saves, ids computed).
"""
import io
import json
import os
import sys
import time
import traceback

PHASES = ("before_save", "mid_write", "after_save", "after_manifest", "in_compute")
KINDS = ("hard", "soft")


def _child(args, crash, delays, wfd):
    import torch
    from pydrobert.speech import command_line as cl

    # a real invocation is a fresh process with fresh entropy; a fork()ed child would inherit the parent's
    # RNG states, making "random" fallbacks look reproducible -- reseed everything from the OS
    import random

    import numpy

    random.seed()
    numpy.random.seed()
    torch.seed()
    state = {"saves_started": 0, "saves_done": 0, "manifest_lines": 0, "computed": []}

    def report(extra=None):
        d = dict(state)
        if extra:
            d.update(extra)
        try:
            os.write(wfd, (json.dumps(d) + "\n").encode())
        except OSError:
            pass

    def die():
        report({"crashed": True})
        if crash["kind"] == "hard":
            os._exit(137)
        raise KeyboardInterrupt()

    real_save = torch.save

    def save(obj, path, *a, **kw):
        i = state["saves_started"]
        state["saves_started"] += 1
        hit = crash is not None and i == crash["k"]
        if hit and crash["phase"] == "before_save":
            die()
        if hit and crash["phase"] == "mid_write":
            buf = io.BytesIO()
            real_save(obj, buf)
            data = buf.getvalue()
            with open(path, "wb") as f:
                f.write(data[: max(1, len(data) // 2)])
            die()
        real_save(obj, path, *a, **kw)
        state["saves_done"] += 1
        if hit and crash["phase"] == "after_save":
            die()

    def patched_print(*a, **kw):
        f = kw.get("file")
        is_manifest = f is not None and f not in (sys.stderr, sys.stdout)
        print(*a, **kw)
        if is_manifest:
            i = state["manifest_lines"]
            state["manifest_lines"] += 1
            if crash is not None and i == crash["k"] and crash["phase"] == "after_manifest":
                die()

    torch.save = save
    cl.print = patched_print

    ds = getattr(cl, "_FeatureProcessorDataset", None)
    if ds is not None:
        real_getitem = ds.__getitem__

        def getitem(self, idx):
            if crash is not None and crash["phase"] == "in_compute":
                i = state["computed_calls"] = state.get("computed_calls", 0) + 1
                if i - 1 == crash["k"]:
                    die()
            if delays:
                time.sleep(delays[idx % len(delays)] / 1000.0)
            out = real_getitem(self, idx)
            try:
                os.write(wfd, (json.dumps({"item": out[0]}) + "\n").encode())
            except OSError:
                pass
            return out

        ds.__getitem__ = getitem

    devnull = open(os.devnull, "w")
    sys.stdout = sys.stderr = devnull
    code = 0
    try:
        rc = cl.signals_to_torch_feat_dir(args)
        report({"rc": rc})
        code = 0 if not rc else 3
    except KeyboardInterrupt:
        code = 130
    except BaseException:  # noqa
        report({"exception": traceback.format_exc()[-1500:]})
        code = 4
    # leaving the except block drops the traceback frames: the tool's open files are
    # deallocated (flushed and closed) exactly as at a normal interpreter shutdown
    import gc

    gc.collect()
    os._exit(code)


_FRESH_BOOT = (
    "import sys, json\n"
    "sys.path[:0] = json.loads(sys.argv[1])\n"
    "from harness.faults.cli_crash import _child\n"
    "cfg = json.loads(sys.argv[2])\n"
    "_child(cfg['args'], cfg['crash'], cfg['delays'], int(sys.argv[3]))\n"
)


def run_tool(args, crash=None, delays=None, timeout=600, fresh=None):
    """Run the CLI in a forked child or, with fresh=<hash seed>, in a new interpreter started with that
    PYTHONHASHSEED (a real re-invocation does not share the string-hash salt, ids or imports of an earlier one).
    Returns dict(status=exit code or -signal, reports=[...])."""
    rfd, wfd = os.pipe()
    proc = None
    if fresh is not None:
        import subprocess

        from . import fresh as fr

        cfg = {"args": [str(a) for a in args], "crash": crash, "delays": delays}
        proc = subprocess.Popen([sys.executable, "-c", _FRESH_BOOT, json.dumps(fr.tree_paths()), json.dumps(cfg), str(wfd)],
                                env=fr.fresh_env(fresh), pass_fds=[wfd], stdout=subprocess.DEVNULL, stderr=subprocess.DEVNULL)
        pid = proc.pid
    else:
        pid = os.fork()
        if pid == 0:
            os.close(rfd)
            try:
                _child(list(args), crash, delays, wfd)
            finally:
                os._exit(5)
    os.close(wfd)
    os.set_blocking(rfd, False)
    chunks = []
    t0 = time.time()
    status = None
    while True:
        try:
            b = os.read(rfd, 65536)
            if b:
                chunks.append(b)
                continue
        except BlockingIOError:
            pass
        if status is not None:
            break
        if proc is not None:
            rc = proc.poll()
            if rc is not None:
                status = rc
                continue
        else:
            done, st = os.waitpid(pid, os.WNOHANG)
            if done:
                status = os.WEXITSTATUS(st) if os.WIFEXITED(st) else -os.WTERMSIG(st)
                continue  # drain what is left (orphaned DataLoader workers may keep the pipe open)
        if time.time() - t0 > timeout:
            os.kill(pid, 9)
            if proc is not None:
                proc.wait()
            else:
                os.waitpid(pid, 0)
            os.close(rfd)
            # a time budget hit is inconclusive, never a violation
            from ..core import HarnessError

            raise HarnessError("tool run exceeded %d s (machine overloaded?)" % timeout)
        time.sleep(0.002)
    os.close(rfd)
    reports, items = [], []
    for line in b"".join(chunks).decode(errors="replace").splitlines():
        try:
            d = json.loads(line)
        except ValueError:
            continue
        if "item" in d:
            items.append(d["item"])
        else:
            reports.append(d)
    return {"status": status, "reports": reports, "items": items}
