"""Run a command-line entry point of the tree under test in a *fresh* interpreter.

A real invocation of the tools is a new process: new string-hash salt, new ids, new RNG state, nothing
imported.  In-process calls and fork()ed children share all of that with the harness, so anything that
leaks a per-process value (hash(), id(), dict order of salted keys) into the output stays invisible there.
The interpreter is started with a given PYTHONHASHSEED so that the run is still a pure function of the case.
"""
import json
import os
import subprocess
import sys

from .. import core

_BOOT = (
    "import sys, json\n"
    "sys.path[:0] = json.loads(sys.argv[1])\n"
    "import os\n"
    "devnull = open(os.devnull, 'w')\n"
    "sys.stdout = sys.stderr = devnull\n"
    "from pydrobert.speech import command_line as cl\n"
    "rc = getattr(cl, sys.argv[2])(json.loads(sys.argv[3]))\n"
    "sys.stdout.flush()\n"
    "os._exit(0 if not rc else 3)\n"
)


def fresh_env(hashseed):
    env = dict(os.environ)
    env["PYTHONHASHSEED"] = str(int(hashseed) % 4294967295)
    env.pop("PYTHONPATH", None)
    return env


def tree_paths():
    return [os.path.join(core.REPO_DIR, "src"), core.VERIF_DIR]


def run_entry(entry, args, hashseed, timeout=600):
    """Call pydrobert.speech.command_line.<entry>(args) in a new interpreter; returns its exit status."""
    try:
        p = subprocess.run([sys.executable, "-c", _BOOT, json.dumps(tree_paths()), entry, json.dumps([str(a) for a in args])],
                           env=fresh_env(hashseed), capture_output=True, timeout=timeout)
    except subprocess.TimeoutExpired:
        raise core.HarnessError("fresh-process run of %s exceeded %d s (machine overloaded?)" % (entry, timeout))
    return p.returncode
