"""Common engine: clauses, recorder, hypothesis driver, sharding, evidence, exit protocol.

Exit protocol (see DESIGN.md section 1):
  0  every clause held on everything explored (KNOWN-FINDING lines may be printed)
  1  at least one violation, one `VIOLATION property=<id> replay=<path>` line per clause
  2  harness error (never reported as a violation)
"""
import os
import sys

VERIF_DIR = os.path.dirname(os.path.dirname(os.path.abspath(__file__)))
REPO_DIR = os.environ.get("VERIF_REPO", "/repo")
# always test the current working tree (or a scratch copy for sensitivity runs)
sys.path.insert(0, os.path.join(REPO_DIR, "src"))

import glob
import hashlib
import json
import subprocess
import tempfile
import time
import traceback
import warnings
from dataclasses import dataclass, field
from typing import Any, Callable, Dict, Iterable, List, Optional

import hypothesis
from hypothesis import HealthCheck, Phase, given, seed as hyp_seed, settings
from hypothesis import strategies as st
from hypothesis.errors import FailedHealthCheck, Flaky, Unsatisfiable


class Violation(Exception):
    """The code under test broke the property on this case."""


class Discard(Exception):
    """The case is outside the property's domain (counted, never a pass or a failure)."""


class HarnessError(Exception):
    """The machinery itself is wrong (exit 2)."""


def require(cond, msg, *args):
    if not cond:
        raise Violation(msg.format(*args) if args else msg)


def call(desc, fn, *args, **kwargs):
    """Call code under test; any exception is a violation (the property says it returns)."""
    try:
        return fn(*args, **kwargs)
    except (Violation, Discard):
        raise
    except Exception as e:  # noqa
        tb = traceback.extract_tb(e.__traceback__)
        where = ""
        for fr in reversed(tb):
            if "pydrobert" in fr.filename:
                where = " at %s:%d" % (os.path.basename(fr.filename), fr.lineno)
                break
        raise Violation("%s raised %s: %s%s" % (desc, type(e).__name__, str(e)[:200], where))


def expect_raises(desc, exc_types, fn, *args, **kwargs):
    """The property says this call is rejected with one of exc_types (exactly)."""
    try:
        fn(*args, **kwargs)
    except exc_types:
        return
    except (Violation, Discard):
        raise
    except Exception as e:  # noqa
        raise Violation(
            "%s raised %s (%s) instead of %s"
            % (desc, type(e).__name__, str(e)[:120], _names(exc_types))
        )
    raise Violation("%s did not raise %s" % (desc, _names(exc_types)))


def _names(exc_types):
    if isinstance(exc_types, tuple):
        return "/".join(t.__name__ for t in exc_types)
    return exc_types.__name__


def canon(case) -> str:
    return json.dumps(case, sort_keys=True, separators=(",", ":"), default=_json_default)


def _json_default(o):
    import numpy as np

    if isinstance(o, (np.integer,)):
        return int(o)
    if isinstance(o, (np.floating,)):
        return float(o)
    if isinstance(o, np.ndarray):
        return o.tolist()
    if isinstance(o, bytes):
        return {"__bytes__": o.hex()}
    if isinstance(o, (set, frozenset, tuple)):
        return list(o)
    raise TypeError(type(o))


def case_key(case) -> str:
    return hashlib.sha1(canon(case).encode()).hexdigest()[:16]


@dataclass
class Clause:
    name: str
    check: Callable[[Any], Optional[dict]]  # returns {"nontrivial": bool, "labels": [...]}
    rule: str
    strategy: Optional[Callable[[], Any]] = None  # () -> hypothesis strategy of JSON cases
    quick: int = 100
    thorough: int = 2000
    shards: int = 16
    # processes used in the quick tier (1 = in-process); for clauses whose cases are dominated by process start-up
    quick_shards: int = 1
    # processes for the enumerated sub-space in the quick tier (None = quick_shards)
    quick_enum_shards: Optional[int] = None
    # finite sub-space enumerated completely: tier -> iterable of cases
    enumerate: Optional[Callable[[str], Iterable[Any]]] = None
    enum_name: str = ""
    enum_tiers: tuple = ("quick", "thorough")
    shrink_quick: bool = True
    sample_fmt: Optional[Callable[[Any], Any]] = None
    # coverage-guided campaign (atheris driving the same strategy + oracle), thorough tier only:
    # runs per process and number of processes
    fuzz_runs: int = 0
    fuzz_procs: int = 8
    # name -> predicate(case) for findings in known_findings.json (excluded by construction)
    known_predicates: Dict[str, Callable[[Any], bool]] = field(default_factory=dict)


class Recorder:
    def __init__(self):
        self.evaluations = 0
        self.nontrivial_keys = set()
        self.all_keys = set()
        self.labels: Dict[str, int] = {}
        self.discarded = 0
        self.excluded_known = 0
        self.samples: List[Any] = []
        self.nontrivial_samples: List[Any] = []
        self.exhaustive: Dict[str, int] = {}

    def record(self, case, info, fmt=None):
        self.evaluations += 1
        k = case_key(case)
        self.all_keys.add(k)
        info = info or {}
        nontrivial = bool(info.get("nontrivial", True))
        if nontrivial:
            if k not in self.nontrivial_keys and len(self.nontrivial_samples) < 2:
                self.nontrivial_samples.append(fmt(case) if fmt else case)
            self.nontrivial_keys.add(k)
        elif len(self.samples) < 2:
            self.samples.append(fmt(case) if fmt else case)
        for lab in info.get("labels", ()):
            self.labels[lab] = self.labels.get(lab, 0) + 1

    def to_json(self):
        return {
            "evaluations": self.evaluations,
            "nontrivial_keys": sorted(self.nontrivial_keys),
            "distinct": len(self.all_keys),
            "labels": self.labels,
            "discarded": self.discarded,
            "excluded_known": self.excluded_known,
            "samples": self.samples,
            "nontrivial_samples": self.nontrivial_samples,
            "exhaustive": self.exhaustive,
        }

    def merge_json(self, d):
        self.evaluations += d["evaluations"]
        self.nontrivial_keys.update(d["nontrivial_keys"])
        self._distinct_extra = getattr(self, "_distinct_extra", 0) + d["distinct"]
        for k, v in d["labels"].items():
            self.labels[k] = self.labels.get(k, 0) + v
        self.discarded += d["discarded"]
        self.excluded_known += d["excluded_known"]
        for s in d["samples"]:
            if len(self.samples) < 2:
                self.samples.append(s)
        for s in d["nontrivial_samples"]:
            if len(self.nontrivial_samples) < 2:
                self.nontrivial_samples.append(s)
        for k, v in d["exhaustive"].items():
            self.exhaustive[k] = self.exhaustive.get(k, 0) + v


@dataclass
class ClauseResult:
    clause: str
    rec: Recorder
    violation: Optional[dict] = None  # {"case":..., "message":...}
    wall_s: float = 0.0


def get_seed() -> int:
    try:
        return int(os.environ.get("VERIF_SEED", "1"))
    except ValueError:
        return 1


def _known_for(prop_id, clause_name):
    path = os.path.join(VERIF_DIR, "known_findings.json")
    try:
        with open(path) as f:
            data = json.load(f)
    except FileNotFoundError:
        return []
    return [
        k
        for k in data.get("known", [])
        if k.get("property") == prop_id and k.get("clause") == clause_name
    ]


def run_one_case(clause: Clause, case, rec: Recorder, known_preds):
    """Run check on a case with bookkeeping. Raises Violation on failure."""
    for pred in known_preds:
        if pred(case):
            rec.excluded_known += 1
            return
    try:
        with warnings.catch_warnings():
            warnings.simplefilter("ignore")
            info = clause.check(case)
    except Discard:
        rec.discarded += 1
        return
    rec.record(case, info, clause.sample_fmt)


def run_clause_generated(prop_id, clause: Clause, n: int, seed: int, shrink: bool) -> ClauseResult:
    rec = Recorder()
    res = ClauseResult(clause.name, rec)
    t0 = time.time()
    known_preds = [
        clause.known_predicates[k["predicate"]]
        for k in _known_for(prop_id, clause.name)
        if k.get("predicate") in clause.known_predicates
    ]
    last_fail = {}

    phases = [Phase.generate, Phase.target]
    if shrink:
        phases.append(Phase.shrink)

    def body(case):
        try:
            run_one_case(clause, case, rec, known_preds)
        except Violation as v:
            last_fail["case"] = case
            last_fail["message"] = str(v)
            raise

    test = given(case=clause.strategy())(body)
    test = settings(
        max_examples=n,
        database=None,
        deadline=None,
        derandomize=False,
        report_multiple_bugs=False,
        phases=phases,
        suppress_health_check=[HealthCheck.too_slow, HealthCheck.data_too_large],
    )(test)
    test = hyp_seed(seed)(test)
    try:
        test()
    except Violation:
        res.violation = dict(last_fail)
    except Flaky:
        # the code under test is not deterministic on this case (e.g. uninitialised memory):
        # a violation was observed at least once, so it is reported, flagged as flaky
        if not last_fail:
            raise
        res.violation = dict(last_fail)
        res.violation["message"] = "[non-deterministic across repeated runs of the same case] " + last_fail["message"]
    except (FailedHealthCheck, Unsatisfiable) as e:
        raise HarnessError("clause %s: generator health check failed: %s" % (clause.name, e))
    res.wall_s = time.time() - t0
    total = rec.evaluations + rec.discarded
    if res.violation is None and total >= 40 and rec.discarded > 0.6 * total:
        # a clause that throws most of its cases away tests little: that is a defect of the harness
        raise HarnessError("clause %s discarded %d of %d generated cases (vacuous generator or domain predicate)"
                           % (clause.name, rec.discarded, total))
    return res


def run_clause_enumerated(prop_id, clause: Clause, tier: str, shard=None) -> ClauseResult:
    rec = Recorder()
    res = ClauseResult(clause.name + ":" + (clause.enum_name or "enum"), rec)
    t0 = time.time()
    known_preds = [
        clause.known_predicates[k["predicate"]]
        for k in _known_for(prop_id, clause.name)
        if k.get("predicate") in clause.known_predicates
    ]
    n = 0
    for idx, case in enumerate(clause.enumerate(tier)):
        if shard is not None and idx % shard[1] != shard[0]:
            continue
        try:
            run_one_case(clause, case, rec, known_preds)
        except Violation as v:
            if res.violation is None:
                res.violation = {"case": case, "message": str(v)}
                break
        n += 1
    rec.exhaustive[clause.enum_name or clause.name] = n
    res.wall_s = time.time() - t0
    return res


def load_corpus(prop_id):
    out = []
    for path in sorted(glob.glob(os.path.join(VERIF_DIR, "corpus", prop_id, "*.json"))):
        with open(path) as f:
            d = json.load(f)
        d["_path"] = path
        out.append(d)
    return out


def write_replay(prop_id, clause_name, violation, seed, tier):
    d = os.path.join(VERIF_DIR, "replays", prop_id)
    os.makedirs(d, exist_ok=True)
    key = case_key(violation["case"])
    safe = "".join(ch if ch.isalnum() or ch in "-_" else "_" for ch in clause_name)
    path = os.path.join(d, "%s__%s.json" % (safe, key))
    with open(path, "w") as f:
        json.dump(
            {
                "property": prop_id,
                "clause": clause_name.split(":")[0],
                "case": violation["case"],
                "message": violation["message"],
                "seed": seed,
                "tier": tier,
            },
            f,
            indent=1,
            sort_keys=True,
            default=_json_default,
        )
    return path


def _shard_worker_cmd(prop_id, tier, clause_name, shard, nshards, out, mode):
    return [
        sys.executable,
        os.path.join(VERIF_DIR, "check"),
        prop_id,
        tier,
        "--clause",
        clause_name,
        "--shard",
        "%d/%d" % (shard, nshards),
        "--mode",
        mode,
        "--out",
        out,
    ]


def run_sharded(prop_id, clause: Clause, tier, seed, mode, nshards) -> ClauseResult:
    """Run a clause over several processes; merge recorders; first violation wins."""
    rec = Recorder()
    res = ClauseResult(clause.name if mode == "gen" else clause.name + ":" + clause.enum_name, rec)
    t0 = time.time()
    with tempfile.TemporaryDirectory(prefix="verif_shards_") as td:
        procs = []
        for i in range(nshards):
            out = os.path.join(td, "s%d.json" % i)
            env = dict(os.environ)
            env["VERIF_SEED"] = str(seed)
            p = subprocess.Popen(
                _shard_worker_cmd(prop_id, tier, clause.name, i, nshards, out, mode),
                env=env,
                stdout=subprocess.PIPE,
                stderr=subprocess.STDOUT,
            )
            procs.append((p, out, i))
        for p, out, i in procs:
            stdout, _ = p.communicate()
            if p.returncode not in (0, 1) or not os.path.exists(out):
                raise HarnessError(
                    "shard %d of clause %s failed (rc=%s):\n%s"
                    % (i, clause.name, p.returncode, stdout.decode(errors="replace")[-3000:])
                )
            with open(out) as f:
                d = json.load(f)
            rec.merge_json(d["rec"])
            if d.get("violation") and res.violation is None:
                res.violation = d["violation"]
    res.wall_s = time.time() - t0
    return res


def ensure_atheris():
    deps = os.path.join(VERIF_DIR, ".deps")
    if os.path.isdir(os.path.join(deps, "atheris")):
        return True
    r = subprocess.run(
        [sys.executable, "-m", "pip", "install", "-q", "--no-index", "--find-links", "/opt/veriftools/wheels",
         "--target", deps, "atheris"], capture_output=True, text=True)
    return r.returncode == 0 and os.path.isdir(os.path.join(deps, "atheris"))


def run_fuzz_campaign(prop_id, clause: Clause, seed) -> Optional[ClauseResult]:
    """atheris (libFuzzer) campaign over the clause's own strategy and oracle, several processes."""
    if not ensure_atheris():
        print("note: atheris is not installable here; coverage-guided campaign for %s skipped" % clause.name)
        return None
    rec = Recorder()
    res = ClauseResult(clause.name + ":coverage_guided", rec)
    t0 = time.time()
    with tempfile.TemporaryDirectory(prefix="verif_fuzz_") as td:
        procs = []
        for i in range(clause.fuzz_procs):
            out = os.path.join(td, "f%d.json" % i)
            env = dict(os.environ)
            p = subprocess.Popen(
                [sys.executable, "-m", "harness.fuzz_runner", prop_id, clause.name, out, str(clause.fuzz_runs), str(seed * 100 + i + 1)],
                cwd=VERIF_DIR, env=env, stdout=subprocess.DEVNULL, stderr=subprocess.DEVNULL)
            procs.append((p, out))
        for p, out in procs:
            p.wait()
            if not os.path.exists(out):
                raise HarnessError("coverage-guided campaign for %s produced no output" % clause.name)
            with open(out) as f:
                d = json.load(f)
            rec.merge_json(d["rec"])
            if d.get("violation") and res.violation is None:
                # confirm outside the fuzzer (plain call of the clause's check)
                try:
                    with warnings.catch_warnings():
                        warnings.simplefilter("ignore")
                        clause.check(d["violation"]["case"])
                except Violation:
                    res.violation = d["violation"]
                except Discard:
                    pass
    res.wall_s = time.time() - t0
    return res


def run_property(mod, tier: str, argv_opts) -> int:
    prop_id = mod.PROPERTY
    seed = get_seed()
    t0 = time.time()
    clauses: List[Clause] = mod.clauses(tier)
    by_name = {c.name: c for c in clauses}

    # ---- shard worker mode -------------------------------------------------------
    if argv_opts.get("shard"):
        i, n = argv_opts["shard"]
        clause = by_name[argv_opts["clause"]]
        if argv_opts.get("mode") == "enum":
            r = run_clause_enumerated(prop_id, clause, tier, shard=(i, n))
        else:
            total = clause.thorough if tier == "thorough" else clause.quick
            r = run_clause_generated(
                prop_id, clause, max(1, total // n), seed * 1000 + i, shrink=(tier == "thorough" or clause.shrink_quick)
            )
        with open(argv_opts["out"], "w") as f:
            json.dump({"rec": r.rec.to_json(), "violation": r.violation}, f, default=_json_default)
        return 1 if r.violation else 0

    # ---- replay mode -------------------------------------------------------------
    if argv_opts.get("replay"):
        with open(argv_opts["replay"]) as f:
            d = json.load(f)
        clause = by_name[d["clause"]]
        try:
            with warnings.catch_warnings():
                warnings.simplefilter("ignore")
                clause.check(d["case"])
        except Violation as v:
            print("replay: clause %s fails: %s" % (clause.name, v))
            print("VIOLATION property=%s replay=%s" % (prop_id, argv_opts["replay"]))
            return 1
        except Discard:
            print("replay: case is outside the domain (discarded)")
            return 0
        print("replay: clause %s holds on this case" % clause.name)
        return 0

    only = argv_opts.get("clause")
    results: List[ClauseResult] = []
    violations = []
    known_lines = []

    # ---- corpus replay first -----------------------------------------------------
    corpus_rec = Recorder()
    corpus_n = 0
    for entry in load_corpus(prop_id):
        clause = by_name.get(entry["clause"])
        if clause is None or (only and clause.name != only):
            continue
        corpus_n += 1
        try:
            with warnings.catch_warnings():
                warnings.simplefilter("ignore")
                info = clause.check(entry["case"])
            corpus_rec.record(entry["case"], info, clause.sample_fmt)
        except Discard:
            corpus_rec.discarded += 1
        except Violation as v:
            violations.append((clause.name + ":corpus", {"case": entry["case"], "message": str(v)}))
    # known findings: witness must still fail -> KNOWN-FINDING line
    try:
        with open(os.path.join(VERIF_DIR, "known_findings.json")) as f:
            kf = json.load(f)
    except FileNotFoundError:
        kf = {}
    for k in kf.get("known", []):
        if k.get("property") != prop_id:
            continue
        clause = by_name.get(k.get("clause"))
        if clause is None:
            continue
        try:
            with warnings.catch_warnings():
                warnings.simplefilter("ignore")
                clause.check(k["witness"])
            known_lines.append(
                "note: known finding %s no longer reproduces on its witness" % k.get("id")
            )
        except Violation:
            known_lines.append("KNOWN-FINDING: property=%s %s" % (prop_id, k.get("what", k.get("id"))))
        except Discard:
            pass

    # ---- generated / enumerated clauses ------------------------------------------
    # quick tier: clauses that are spread over processes anyway are all started at once (their cases are dominated by
    # process start-up and waiting for children); results are collected in clause order
    ahead = {}
    if tier == "quick" and not argv_opts.get("corpus_only"):
        from concurrent.futures import ThreadPoolExecutor

        pool = ThreadPoolExecutor(max_workers=8)
        for clause in clauses:
            if (only and clause.name != only) or clause.quick_shards <= 1:
                continue
            if clause.strategy is not None:
                ahead[clause.name, "gen"] = pool.submit(run_sharded, prop_id, clause, tier, seed, "gen", clause.quick_shards)
            if clause.enumerate is not None and tier in clause.enum_tiers:
                ahead[clause.name, "enum"] = pool.submit(run_sharded, prop_id, clause, tier, seed, "enum",
                                                         clause.quick_enum_shards or clause.quick_shards)
    for clause in clauses:
        if (only and clause.name != only) or argv_opts.get("corpus_only"):
            continue
        if clause.strategy is not None:
            if tier == "thorough" and clause.shards > 1:
                r = run_sharded(prop_id, clause, tier, seed, "gen", clause.shards)
            elif (clause.name, "gen") in ahead:
                r = ahead[clause.name, "gen"].result()
            else:
                n = clause.thorough if tier == "thorough" else clause.quick
                r = run_clause_generated(
                    prop_id, clause, n, seed, shrink=(tier == "thorough" or clause.shrink_quick)
                )
            results.append(r)
            if r.violation:
                violations.append((clause.name, r.violation))
            if tier == "thorough" and clause.fuzz_runs and not r.violation:
                fr = run_fuzz_campaign(prop_id, clause, seed)
                if fr is not None:
                    results.append(fr)
                    if fr.violation:
                        violations.append((fr.clause, fr.violation))
        if clause.enumerate is not None and tier in clause.enum_tiers:
            if tier == "thorough" and clause.shards > 1:
                r = run_sharded(prop_id, clause, tier, seed, "enum", clause.shards)
            elif (clause.name, "enum") in ahead:
                r = ahead[clause.name, "enum"].result()
            else:
                r = run_clause_enumerated(prop_id, clause, tier)
            results.append(r)
            if r.violation:
                violations.append((r.clause, r.violation))

    # ---- evidence ----------------------------------------------------------------
    total_eval = corpus_rec.evaluations
    nontrivial = set(corpus_rec.nontrivial_keys)
    labels = {}
    samples = []
    per_clause = {}
    exhaustive = {}
    discarded = corpus_rec.discarded
    excluded = 0
    for r in results:
        total_eval += r.rec.evaluations
        nontrivial |= set(r.clause + ":" + k for k in r.rec.nontrivial_keys)
        discarded += r.rec.discarded
        excluded += r.rec.excluded_known
        per_clause[r.clause] = {
            "evaluations": r.rec.evaluations,
            "distinct_nontrivial": len(r.rec.nontrivial_keys),
            "discarded_outside_domain": r.rec.discarded,
            "excluded_known_findings": r.rec.excluded_known,
            "labels": dict(sorted(r.rec.labels.items())),
            "wall_s": round(r.wall_s, 2),
            "violation": bool(r.violation),
        }
        for s in (r.rec.nontrivial_samples + r.rec.samples)[:2]:
            samples.append({"clause": r.clause, "case": s})
        exhaustive.update(r.rec.exhaustive)
    rules = {c.name: c.rule for c in clauses if (not only or c.name == only)}
    evidence = {
        "property_id": prop_id,
        "tier": tier,
        "seed": seed,
        "level": getattr(mod, "LEVEL", "exploration"),
        "coverage": {
            "evaluations": total_eval,
            "distinct_nontrivial": len(nontrivial),
            "rule": getattr(mod, "RULE", "")
            + " Per clause: "
            + " | ".join("%s: %s" % (k, v) for k, v in rules.items()),
            "samples": json.loads(json.dumps(samples, default=_json_default)),
            "per_clause": per_clause,
            "corpus_cases_replayed": corpus_n,
            "discarded_outside_domain": discarded,
            "excluded_known_findings": excluded,
            "exhaustive_subspaces": exhaustive,
            "exhaustive": False,
        },
        "assumptions": list(getattr(mod, "ASSUMPTIONS", [])),
        "wall_s": round(time.time() - t0, 2),
        "violations": len(violations),
    }
    # evidence describes /repo only: runs against a scratch/mutant tree (VERIF_REPO) never write it
    if not only and not argv_opts.get("corpus_only") and os.path.realpath(REPO_DIR) == "/repo":
        os.makedirs(os.path.join(VERIF_DIR, "evidence"), exist_ok=True)
        with open(os.path.join(VERIF_DIR, "evidence", prop_id + ".json"), "w") as f:
            json.dump(evidence, f, indent=1, sort_keys=True, default=_json_default)

    # ---- report ------------------------------------------------------------------
    for line in known_lines:
        print(line)
    for r in results:
        print(
            "clause %-28s evals=%-7d nontrivial=%-7d discarded=%-5d %.1fs %s"
            % (
                r.clause,
                r.rec.evaluations,
                len(r.rec.nontrivial_keys),
                r.rec.discarded,
                r.wall_s,
                "VIOLATED" if r.violation else "ok",
            )
        )
    if violations:
        for cname, v in violations:
            path = write_replay(prop_id, cname, v, seed, tier)
            print("  %s: %s" % (cname, v["message"]))
            print("  case: %s" % canon(v["case"])[:600])
            print("VIOLATION property=%s replay=%s" % (prop_id, path))
        return 1
    print("%s %s: held on %d cases (%d distinct non-trivial) in %.1fs" % (
        prop_id, tier, total_eval, len(nontrivial), time.time() - t0))
    return 0


def main(argv):
    import importlib

    if len(argv) < 3:
        print("usage: check <ID> <quick|thorough> [--replay FILE] [--clause NAME]")
        return 2
    prop_id, tier = argv[1].upper(), argv[2]
    if tier not in ("quick", "thorough"):
        print("tier must be quick or thorough")
        return 2
    opts = {}
    it = iter(argv[3:])
    for a in it:
        if a == "--replay":
            opts["replay"] = next(it)
        elif a == "--clause":
            opts["clause"] = next(it)
        elif a == "--shard":
            i, n = next(it).split("/")
            opts["shard"] = (int(i), int(n))
        elif a == "--out":
            opts["out"] = next(it)
        elif a == "--mode":
            opts["mode"] = next(it)
        elif a == "--corpus-only":
            opts["corpus_only"] = True
        else:
            print("unknown option", a)
            return 2
    try:
        mod = importlib.import_module("harness.props." + prop_id.lower())
        return run_property(mod, tier, opts)
    except HarnessError as e:
        print("HARNESS-ERROR: %s" % e)
        return 2
    except Exception:  # noqa
        traceback.print_exc()
        print("HARNESS-ERROR: unexpected exception in the machinery (not a violation)")
        return 2
