"""Independent "shorten" (format versions 1 and 2) ENCODER used as the round-trip oracle of C13.

Written from the format description (Tony Robinson, "SHORTEN: simple lossless and near-lossless
waveform compression", CUED/F-INFENG/TR.156, and the stream layout read by shorten 2.x /
sph2pipe's shorten_x.c).  It never imports the code under test and shares no code with it.

Stream layout (after the NIST SPHERE header):

    "ajkg"  version-byte  then a big-endian bit stream consumed in 32-bit words

    uvar(x, n)  : x >> n  zero bits, a one bit, then the n low bits of x (MSB first)
    var(x, n)   : uvar(fold(x), n + 1) with fold(x) = 2x for x >= 0 and 2(-x-1)+1 for x < 0
    ulong(x)    : uvar(w, 2) uvar(x, w) with w >= bit_length(x)
    header      : ulong ftype, nchan, blocksize, maxnlpc, nmean, nskip (+ nskip * uvar(byte, 7))
    commands    : uvar(cmd, 2)
        DIFF0..DIFF3 (0..3): uvar(resn, 3) then blocksize residuals var(r, resn)
        QLPC (7)           : uvar(resn, 3) uvar(nlpc, 2) nlpc * var(coef, 5) then residuals
        ZERO (8)           : nothing (block of zeros)
        BLOCKSIZE (5)      : ulong(new block size)
        BITSHIFT (6)       : uvar(shift, 2)
        QUIT (4)           : end; the last 32-bit word is padded
    One block per channel in turn (channel 0, channel 1, ...).

Predictors (x = decoded values before the bit shift is re-applied, h = per-channel history of
nwrap = max(3, maxnlpc) values, all zero at the start):

    DIFF0  x[i] = r + offset          DIFF1  x[i] = r + x[i-1]
    DIFF2  x[i] = r + 2x[i-1] - x[i-2]
    DIFF3  x[i] = r + 3(x[i-1] - x[i-2]) + x[i-3]
    QLPC   y = x - offset ; y[i] = r + ((lpcqoffset + sum_j coef[j] y[i-1-j]) >> 5) ; x = y + offset
           lpcqoffset = 0 (version 1) or 32 (version 2)

    offset = mean of the last nmean block means (C division, truncating toward zero); version 2
    adds nmean//2 before dividing and shifts the result down by the current bit shift; a block
    mean is sum(x)/blocksize (version 2: (sum(x) + blocksize//2)/blocksize, shifted UP by the bit
    shift before it is stored).  nmean == 0: offset is the type's initial mean (0 for the
    signed and mu-law types written here).

    Output sample = x << bitshift (PCM); for the lossless mu-law type AU2 (bit shift 0 only)
    x >= 0 maps to code 0xFF - x and x < 0 to code x + 0x80.

The QLPC history quirk of the reference decoder (history values keep the offset subtracted when
a block is shorter than the history) is outside the property ("blocks no shorter than the
predictor history"), so `encode` refuses QLPC in a block shorter than nwrap.
"""
import numpy as np

MAGIC = b"ajkg"

TYPE_S16HL, TYPE_S16LH, TYPE_AU2 = 3, 5, 8
TYPE_AU1 = 0  # shorten's original lossless mu-law type
FTYPES = (TYPE_S16HL, TYPE_S16LH, TYPE_AU2, TYPE_AU1)
ULAW_TYPES = (TYPE_AU1, TYPE_AU2)

FN = {"DIFF0": 0, "DIFF1": 1, "DIFF2": 2, "DIFF3": 3, "QUIT": 4, "BLOCKSIZE": 5, "BITSHIFT": 6, "QLPC": 7, "ZERO": 8}
FN_NAMES = {v: k for k, v in FN.items()}
BLOCK_CMDS = ("DIFF0", "DIFF1", "DIFF2", "DIFF3", "QLPC", "ZERO")

ULONGSIZE, FNSIZE, ENERGYSIZE, LPCQSIZE, LPCQUANT, BITSHIFTSIZE, XBYTESIZE = 2, 2, 3, 2, 5, 2, 7
NWRAP_MIN = 3

# longest run of zero bits we let a residual produce (keeps the pure-Python decoder fast while
# still crossing a 32-bit word inside the unary part)
MAX_UNARY = 72


class EncodeError(ValueError):
    """The program is not a valid shorten program (harness error, never a violation)."""


# ------------------------------------------------------------------------------ bit writer


class BitWriter:
    """Collects bits as text; `getvalue` packs them MSB-first and pads to a 32-bit word."""

    def __init__(self):
        self.parts = []
        self.nbits = 0

    def bits(self, value, n):
        if n:
            if value < 0 or value >> n:
                raise EncodeError("value %d does not fit %d bits" % (value, n))
            self.parts.append(format(value, "0%db" % n))
            self.nbits += n

    def uvar(self, x, n):
        if x < 0:
            raise EncodeError("uvar of a negative number")
        hi = x >> n
        self.parts.append("0" * hi + "1")
        self.nbits += hi + 1
        self.bits(x & ((1 << n) - 1), n)

    def var(self, x, n):
        self.uvar(2 * x if x >= 0 else 2 * (-x - 1) + 1, n + 1)

    def ulong(self, x, slack=0):
        w = max(int(x).bit_length(), 0) + slack
        self.uvar(w, ULONGSIZE)
        self.uvar(x, w)

    def getvalue(self, pad_words=0, pad_fill=0):
        s = "".join(self.parts)
        # pad_fill 0: zeros, 1: ones, 2: a single one then zeros (what the shorten program writes)
        npad = (-len(s)) % 32 + 32 * pad_words
        if pad_fill == 2:
            s += ("1" + "0" * npad)[:npad]
        else:
            s += ("1" if pad_fill else "0") * npad
        if not s:
            return b""
        return int(s, 2).to_bytes(len(s) // 8, "big")


# ------------------------------------------------------------------------------ bit reader
# Independent of the writer (index arithmetic on the bytes, no text): used for the self-test and
# to parse real shorten streams (the shipped sph2pipe vectors).


class BitReader:
    def __init__(self, data, start=0):
        self.data = data
        self.pos = 8 * start
        self.end = 8 * len(data)

    def bit(self):
        p = self.pos
        if p >= self.end:
            raise EOFError("bit stream exhausted")
        self.pos = p + 1
        return (self.data[p >> 3] >> (7 - (p & 7))) & 1

    def uvar(self, n):
        hi = 0
        while not self.bit():
            hi += 1
        for _ in range(n):
            hi = (hi << 1) | self.bit()
        return hi

    def var(self, n):
        u = self.uvar(n + 1)
        return -(u >> 1) - 1 if u & 1 else u >> 1

    def ulong(self):
        return self.uvar(self.uvar(ULONGSIZE))


def parse_stream(stream, residuals=False):
    """Walk a shorten stream with the independent reader.  Returns (header dict, command list).
    Block commands are reported as dicts {"cmd", "resn", "qlpc", "blocksize", "bitshift"} (plus
    "res" when residuals=True); BLOCKSIZE/BITSHIFT commands update the reported state."""
    if stream[:4] != MAGIC:
        raise ValueError("no shorten magic")
    version = stream[4]
    rd = BitReader(stream, 5)
    hdr = {"version": version}
    for k in ("ftype", "nchan", "blocksize", "maxnlpc", "nmean", "nskip"):
        hdr[k] = rd.ulong()
    hdr["skip"] = [rd.uvar(XBYTESIZE) for _ in range(hdr["nskip"])]
    bs, shift = hdr["blocksize"], 0
    cmds = []
    while True:
        c = rd.uvar(FNSIZE)
        if c == FN["QUIT"]:
            break
        if c == FN["BLOCKSIZE"]:
            bs = rd.ulong()
        elif c == FN["BITSHIFT"]:
            shift = rd.uvar(BITSHIFTSIZE)
        elif c == FN["ZERO"]:
            cmds.append({"cmd": "ZERO", "blocksize": bs, "bitshift": shift})
        elif c in (0, 1, 2, 3, FN["QLPC"]):
            d = {"cmd": FN_NAMES[c], "blocksize": bs, "bitshift": shift, "resn": rd.uvar(ENERGYSIZE)}
            if c == FN["QLPC"]:
                d["qlpc"] = [rd.var(LPCQUANT) for _ in range(rd.uvar(LPCQSIZE))]
            res = [rd.var(d["resn"]) for _ in range(bs)]
            if residuals:
                d["res"] = res
            cmds.append(d)
        else:
            raise ValueError("unknown command %d" % c)
    hdr["bits_used"] = rd.pos - 40
    return hdr, cmds


# ------------------------------------------------------------------------------ G.711 / AU2


def ulaw_expand(code):
    """ITU-T G.711 mu-law octet -> 16-bit linear value (segment formula, 14-bit value * 4)."""
    u = ~code & 0xFF
    seg, step = (u >> 4) & 7, u & 15
    mag = (((2 * step + 33) << seg) - 33) * 4
    return -mag if u & 0x80 else mag


ULAW_EXPAND = np.array([ulaw_expand(c) for c in range(256)], dtype=np.int16)


def au2_inward(code):
    """mu-law octet -> shorten's internal (order preserving) value for type AU2."""
    return 0xFF - code if code >= 0x80 else code - 0x80


def au2_outward(x):
    if not -128 <= x <= 127:
        raise EncodeError("AU2 value out of range")
    return 0xFF - x if x >= 0 else x + 0x80


def au1_inward(code):
    """mu-law octet -> shorten's internal value for type AU1 (first row of shorten's ulaw_outward table read backwards:
    internal 0..127 are the positive codes 0xFF..0x80, -127..-1 the negative codes 0x00..0x7E, -128 the negative zero 0x7F)."""
    if code >= 0x80:
        return 0xFF - code
    return -128 if code == 0x7F else code - 127


def au1_outward(x):
    if not -128 <= x <= 127:
        raise EncodeError("AU1 value out of range")
    if x >= 0:
        return 0xFF - x
    return 0x7F if x == -128 else x + 127


def ulaw_inward(ftype, code):
    return au1_inward(code) if ftype == TYPE_AU1 else au2_inward(code)


def ulaw_outward(ftype, x):
    return au1_outward(x) if ftype == TYPE_AU1 else au2_outward(x)


# ------------------------------------------------------------------------------ encoder


def c_div(a, b):
    """C99 integer division (truncation toward zero), b > 0."""
    q = abs(a) // b
    return -q if a < 0 else q


def min_resn(residuals, max_unary=MAX_UNARY):
    """Smallest Rice parameter for which no residual needs more than max_unary zero bits."""
    top = 0
    for r in residuals:
        f = 2 * r if r >= 0 else 2 * (-r - 1) + 1
        if f > top:
            top = f
    n = 0
    while (top >> (n + 1)) > max_unary:
        n += 1
    return n


class _Chan:
    def __init__(self, nwrap, nmean):
        self.hist = [0] * nwrap
        self.offsets = [0] * max(1, nmean)  # initial mean of the signed / mu-law types is 0


def encode(version, ftype, nchan, blocksize, maxnlpc, nmean, steps, *, ulong_slack=0,
           pad_words=0, pad_fill=0, quit=True, version_byte=None, exact_resn=False):
    """Encode a command program.

    steps: list of
        ("BLOCKSIZE", n)                 only when the next block belongs to channel 0
        ("BITSHIFT", s)
        ("RAW", code)                    any command code verbatim (error clauses)
        (cmd, samples, resn, qlpc)       cmd in BLOCK_CMDS; samples = output-domain values of the
                                         next block of the current channel (PCM: int16 values,
                                         AU2: mu-law octets); resn = requested Rice parameter
                                         (raised to min_resn(residuals) unless exact_resn); qlpc = coefficient list
    Returns (stream bytes, info) with info = {"blocks": [...effective commands...], "bits": n}.
    """
    if version not in (1, 2):
        raise EncodeError("version")
    if ftype not in FTYPES:
        raise EncodeError("ftype")
    if nchan < 1 or blocksize < 1 or maxnlpc < 0 or nmean < 0:
        raise EncodeError("header")
    nwrap = max(NWRAP_MIN, maxnlpc)
    lpcqoffset = 0 if version < 2 else 1 << LPCQUANT
    w = BitWriter()
    for v in (ftype, nchan, blocksize, maxnlpc, nmean, 0):
        w.ulong(v, ulong_slack)
    chans = [_Chan(nwrap, nmean) for _ in range(nchan)]
    bs, shift, chan = blocksize, 0, 0
    blocks = []
    for st in steps:
        name = st[0]
        if name == "BLOCKSIZE":
            if chan != 0:
                raise EncodeError("BLOCKSIZE inside a frame")
            if not 1 <= st[1] <= blocksize:
                raise EncodeError("block size outside 1..initial")
            w.uvar(FN["BLOCKSIZE"], FNSIZE)
            w.ulong(st[1], ulong_slack)
            bs = st[1]
            continue
        if name == "BITSHIFT":
            if st[1] < 0 or (ftype in ULAW_TYPES and st[1] != 0):
                raise EncodeError("bit shift")
            w.uvar(FN["BITSHIFT"], FNSIZE)
            w.uvar(st[1], BITSHIFTSIZE)
            shift = st[1]
            continue
        if name == "RAW":
            w.uvar(st[1], FNSIZE)
            continue
        if name not in BLOCK_CMDS:
            raise EncodeError("unknown step %r" % (name,))
        _, samples, resn, qlpc = st
        samples = [int(s) for s in samples]
        if len(samples) != bs:
            raise EncodeError("block of %d samples, block size %d" % (len(samples), bs))
        # output domain -> internal domain
        if ftype in ULAW_TYPES:
            x = [ulaw_inward(ftype, s) for s in samples]
        else:
            for s in samples:
                if not -32768 <= s <= 32767:
                    raise EncodeError("sample outside int16")
                if s & ((1 << shift) - 1):
                    raise EncodeError("sample %d has non-zero bits below the bit shift %d" % (s, shift))
            x = [s >> shift for s in samples]
        ch = chans[chan]
        # running-mean offset
        if nmean == 0:
            offset = ch.offsets[0]
        else:
            tot = sum(ch.offsets[:nmean]) + (0 if version < 2 else nmean // 2)
            offset = c_div(tot, nmean)
            if version >= 2:
                offset >>= shift
        h = ch.hist + x
        n0 = nwrap
        if name == "ZERO":
            if any(x):
                raise EncodeError("ZERO for a non-zero block")
            res = None
        elif name == "DIFF0":
            res = [v - offset for v in x]
        elif name == "DIFF1":
            res = [h[n0 + i] - h[n0 + i - 1] for i in range(bs)]
        elif name == "DIFF2":
            res = [h[n0 + i] - (2 * h[n0 + i - 1] - h[n0 + i - 2]) for i in range(bs)]
        elif name == "DIFF3":
            res = [h[n0 + i] - (3 * (h[n0 + i - 1] - h[n0 + i - 2]) + h[n0 + i - 3]) for i in range(bs)]
        else:  # QLPC
            qlpc = [int(c) for c in (qlpc or [])]
            if len(qlpc) > maxnlpc:
                raise EncodeError("LPC order above maxnlpc")
            if bs < nwrap:
                raise EncodeError("QLPC in a block shorter than the predictor history")
            y = [v - offset for v in h]
            res = []
            for i in range(bs):
                acc = lpcqoffset
                for j, c in enumerate(qlpc):
                    acc += c * y[n0 + i - 1 - j]
                res.append(y[n0 + i] - (acc >> LPCQUANT))
        w.uvar(FN[name], FNSIZE)
        eff = {"cmd": name, "chan": chan, "blocksize": bs, "bitshift": shift}
        if res is not None:
            resn = int(resn) if exact_resn else max(int(resn), min_resn(res))
            eff["resn"] = resn
            w.uvar(resn, ENERGYSIZE)
            if name == "QLPC":
                eff["nlpc"] = len(qlpc)
                w.uvar(len(qlpc), LPCQSIZE)
                for c in qlpc:
                    w.var(c, LPCQUANT)
            for r in res:
                w.var(r, resn)
            eff["maxres"] = max(abs(r) for r in res)
        blocks.append(eff)
        # state update: block mean, history
        if nmean > 0:
            tot = sum(x) + (0 if version < 2 else bs // 2)
            m = c_div(tot, bs)
            if version >= 2:
                m <<= shift
            ch.offsets = ch.offsets[1:nmean] + [m]
        ch.hist = h[-nwrap:]
        chan = (chan + 1) % nchan
    if quit:
        w.uvar(FN["QUIT"], FNSIZE)
    body = w.getvalue(pad_words, pad_fill)
    vb = version if version_byte is None else version_byte
    return MAGIC + bytes([vb & 0xFF]) + body, {"blocks": blocks, "bits": w.nbits, "end_chan": chan}


# ------------------------------------------------------------------------------ SPHERE header


def sphere_header(ftype, version, nchan, sample_count, sample_rate=16000):
    """1024-byte NIST_1A header of a shorten-compressed file, fields as written by NIST's w_encode
    (cf. the sph2pipe test vectors)."""
    pcm = ftype not in ULAW_TYPES
    coding = ("pcm" if pcm else "ulaw") + ",embedded-shorten-v" + ("2.00" if version >= 2 else "1.09")
    fields = [
        ("database_id", "verif"),
        ("channel_count", nchan),
        ("sample_count", sample_count),
        ("sample_rate", sample_rate),
        ("sample_n_bytes", 2 if pcm else 1),
        ("sample_byte_format", {TYPE_S16HL: "10", TYPE_S16LH: "01", TYPE_AU2: "1", TYPE_AU1: "1"}[ftype]),
        ("sample_sig_bits", 16 if pcm else 8),
        ("sample_coding", coding),
    ]
    text = "NIST_1A\n   1024\n"
    for k, v in fields:
        if isinstance(v, int):
            text += "%s -i %d\n" % (k, v)
        else:
            text += "%s -s%d %s\n" % (k, len(v), v)
    text += "end_head\n"
    raw = text.encode("ascii")
    if len(raw) > 1024:
        raise EncodeError("header too long")
    return raw + b" " * (1024 - len(raw))


def split_sphere(data):
    """(header fields dict, payload bytes) of a SPHERE file - tiny parser for the shipped vectors."""
    if data[:8] != b"NIST_1A\n":
        raise ValueError("not a SPHERE file")
    size = int(data[8:16])
    out = {}
    for line in data[16:size].decode("latin-1").split("\n"):
        if line == "end_head":
            break
        parts = line.split(None, 2)
        if len(parts) == 3:
            out[parts[0]] = int(parts[2]) if parts[1] == "-i" else parts[2]
    return out, data[size:]


def expected_output(ftype, frames):
    """frames: (n, nchan) array of output-domain values -> what a correct reader returns."""
    frames = np.asarray(frames)
    if ftype in ULAW_TYPES:
        out = ULAW_EXPAND[frames.astype(np.uint8)]
    else:
        out = frames.astype(np.int16)
    return out[:, 0] if out.shape[1] == 1 else out


# ------------------------------------------------------------------------------ self test


def reference_decode(stream):
    """Straightforward decoder over `parse_stream` output, used ONLY to self-test the encoder
    (encode -> reference_decode must be the identity) - it is not the oracle of the property."""
    hdr, cmds = parse_stream(stream, residuals=True)
    version, ftype, nchan, nmean = hdr["version"], hdr["ftype"], hdr["nchan"], hdr["nmean"]
    nwrap = max(NWRAP_MIN, hdr["maxnlpc"])
    lpcqoffset = 0 if version < 2 else 32
    hist = [[0] * nwrap for _ in range(nchan)]
    offs = [[0] * max(1, nmean) for _ in range(nchan)]
    out = [[] for _ in range(nchan)]
    for k, d in enumerate(cmds):
        c = k % nchan
        bs, shift = d["blocksize"], d["bitshift"]
        if nmean:
            offset = c_div(sum(offs[c]) + (nmean // 2 if version >= 2 else 0), nmean)
            if version >= 2:
                offset >>= shift
        else:
            offset = offs[c][0]
        b = list(hist[c])
        if d["cmd"] == "ZERO":
            b += [0] * bs
        elif d["cmd"] == "QLPC":
            q = d["qlpc"]
            y = [v - offset for v in b]
            for r in d["res"]:
                acc = lpcqoffset
                for j in range(len(q)):
                    acc += q[j] * y[-1 - j]
                y.append(r + (acc >> 5))
            b = b + [v + offset for v in y[nwrap:]]
        else:
            order = int(d["cmd"][4])
            for r in d["res"]:
                if order == 0:
                    p = offset
                elif order == 1:
                    p = b[-1]
                elif order == 2:
                    p = 2 * b[-1] - b[-2]
                else:
                    p = 3 * (b[-1] - b[-2]) + b[-3]
                b.append(r + p)
        x = b[nwrap:]
        if nmean:
            m = c_div(sum(x) + (bs // 2 if version >= 2 else 0), bs)
            offs[c] = offs[c][1:] + [m << shift if version >= 2 else m]
        hist[c] = b[-nwrap:]
        if ftype in ULAW_TYPES:
            out[c] += [ulaw_outward(ftype, v) for v in x]
        else:
            out[c] += [v << shift for v in x]
    return np.array(out, dtype=np.int64).T  # (n, nchan)


def self_test():
    """Raises AssertionError when the oracle is inconsistent (the harness turns that into exit 2)."""
    # 1. bit writer against the independent reader
    rng = np.random.Generator(np.random.PCG64(20261004))
    w = BitWriter()
    items = []
    for _ in range(600):
        kind = int(rng.integers(0, 4))
        n = int(rng.integers(0, 20))
        if kind == 0:
            v = int(rng.integers(0, 1 << int(rng.integers(1, 22))))
            v = min(v, (MAX_UNARY << n) | ((1 << n) - 1))
            w.uvar(v, n)
        elif kind == 1:
            v = int(rng.integers(-(1 << 17), 1 << 17))
            n = max(n, 10)
            w.var(v, n)
        elif kind == 2:
            v = int(rng.integers(0, 1 << int(rng.integers(1, 31))))
            n = int(rng.integers(0, 3))
            w.ulong(v, n)
        else:
            n = int(rng.integers(1, 33))
            v = int(rng.integers(0, 1 << n))
            w.bits(v, n)
        items.append((kind, v, n))
    data = w.getvalue()
    assert len(data) % 4 == 0 and 8 * len(data) - w.nbits < 32
    rd = BitReader(data)
    for kind, v, n in items:
        if kind == 0:
            got = rd.uvar(n)
        elif kind == 1:
            got = rd.var(n)
        elif kind == 2:
            got = rd.ulong()
        else:
            got = 0
            for _ in range(n):
                got = (got << 1) | rd.bit()
        assert got == v, (kind, v, n, got)
    assert rd.pos == w.nbits
    # hand-computed anchors: uvar(5, 2) = 0 1 01 ; var(-1, 0) = uvar(1, 1) = 1 1 ; QUIT = 0 1 00
    a = BitWriter()
    a.uvar(5, 2)
    a.var(-1, 0)
    a.uvar(4, 2)
    a.var(3, 1)  # fold 6 -> uvar(6, 2) = 0 1 10
    assert "".join(a.parts) == "0101" + "11" + "0100" + "0110", "".join(a.parts)
    assert a.getvalue() == bytes([0b01011101, 0b00011000, 0, 0])
    assert a.getvalue(1, 1) == bytes([0b01011101, 0b00011011, 255, 255, 255, 255, 255, 255])
    # 2. mu-law: closed form against the shift/bias form and anchors; AU2 map is a bijection
    for c in range(256):
        u = ~c & 0xFF
        t = (((u & 15) << 3) + 0x84) << ((u >> 4) & 7)
        assert ulaw_expand(c) == ((0x84 - t) if u & 0x80 else (t - 0x84))
        assert au2_outward(au2_inward(c)) == c
        assert au1_outward(au1_inward(c)) == c
    assert ulaw_expand(0xFF) == 0 and ulaw_expand(0x7F) == 0 and ulaw_expand(0x80) == 32124
    assert ulaw_expand(0x00) == -32124 and ulaw_expand(0xFE) == 8 and ulaw_expand(0x7E) == -8
    inw = [au2_inward(c) for c in range(256)]
    assert sorted(inw) == list(range(-128, 128))
    # the internal order is the order of the linear values (that is what makes DIFFn useful)
    lin = sorted(range(256), key=lambda c: (inw[c]))
    assert all(ulaw_expand(lin[i]) <= ulaw_expand(lin[i + 1]) for i in range(255))
    assert c_div(-7, 2) == -3 and c_div(7, 2) == 3 and c_div(-1, 4) == 0 and c_div(-8, 4) == -2
    # 3. encoder -> straightforward decoder is the identity on a mixed program
    for version in (1, 2):
        for ftype in FTYPES:
            nchan, bs0, maxnlpc, nmean = 2, 9, 4, 3
            steps, chan_samples = [], [[] for _ in range(nchan)]
            bs, shift, c = bs0, 0, 0
            names = ["DIFF0", "QLPC", "DIFF3", "ZERO", "DIFF1", "DIFF2", "QLPC", "DIFF0", "DIFF2", "QLPC", "DIFF1", "DIFF3"]
            for k, name in enumerate(names):
                if k == 4 and ftype not in ULAW_TYPES:
                    steps.append(("BITSHIFT", 3))
                    shift = 3
                if k == 8:
                    steps.append(("BLOCKSIZE", 5))
                    bs = 5
                if ftype in ULAW_TYPES:
                    s = [ulaw_outward(ftype, int(v)) for v in rng.integers(-128, 128, size=bs)]
                    if name == "ZERO":
                        s = [0xFF] * bs
                else:
                    s = [(int(v) >> shift) << shift for v in rng.integers(-32768, 32768, size=bs)]
                    if name == "ZERO":
                        s = [0] * bs
                q = [int(v) for v in rng.integers(-32, 32, size=int(rng.integers(0, maxnlpc + 1)))]
                steps.append((name, s, int(rng.integers(0, 18)), q))
                chan_samples[c] += s
                c = (c + 1) % nchan
            stream, info = encode(version, ftype, nchan, bs0, maxnlpc, nmean, steps, ulong_slack=version - 1)
            assert len(stream) % 4 == 1
            back = reference_decode(stream)
            assert np.array_equal(back, np.array(chan_samples).T), (version, ftype)
    # 4. header writer parses back
    h = sphere_header(TYPE_S16LH, 2, 3, 1234, 8000)
    f, rest = split_sphere(h + b"xyz")
    assert len(h) == 1024 and rest == b"xyz"
    assert f["channel_count"] == 3 and f["sample_count"] == 1234 and f["sample_rate"] == 8000
    assert f["sample_n_bytes"] == 2 and f["sample_byte_format"] == "01"
    assert f["sample_coding"] == "pcm,embedded-shorten-v2.00"
    f, _ = split_sphere(sphere_header(TYPE_AU2, 1, 1, 5))
    assert f["sample_coding"] == "ulaw,embedded-shorten-v1.09" and f["sample_n_bytes"] == 1
    return True


def reencode_like(stream, frames):
    """Encode `frames` ((n, nchan) output-domain values) with exactly the commands found in an
    existing shorten `stream`; used to check the encoder bit-for-bit against streams produced by
    the real shorten program (the sph2pipe vectors)."""
    hdr, cmds = parse_stream(stream)
    nchan = hdr["nchan"]
    steps, pos, bs, shift = [], [0] * nchan, hdr["blocksize"], 0
    for k, d in enumerate(cmds):
        c = k % nchan
        if d["blocksize"] != bs:
            steps.append(("BLOCKSIZE", d["blocksize"]))
            bs = d["blocksize"]
        if d["bitshift"] != shift:
            steps.append(("BITSHIFT", d["bitshift"]))
            shift = d["bitshift"]
        s = frames[pos[c] : pos[c] + bs, c]
        pos[c] += bs
        steps.append((d["cmd"], s, d.get("resn", 0), d.get("qlpc")))
    out, info = encode(hdr["version"], hdr["ftype"], nchan, hdr["blocksize"], hdr["maxnlpc"], hdr["nmean"], steps,
                       exact_resn=True)
    return out, info, hdr, cmds


if __name__ == "__main__":
    self_test()
    print("shorten_enc self-test ok")
