"""Independent time-domain reference for the short-integration features (C03).

No FFT, no overlap-save: plain np.convolve of the signal (zero outside [0, N)) with the bank's
impulse response clamped to the longest filter's support, then the window-weighted sum over
2 x frame_shift samples. Alignment derived from the class documentation:

  causal  : frame k integrates |(x * h_i)[n]|^p for n in [kS, kS + 2S)
  centered: every filter is translated so that its support lies in the centre of the frame and
            frame k integrates the span of 2S samples centred on kS.

'Centred on' leaves a one-sample convention open for an even-length span, so `features`
returns the matrix for a given per-column alignment shift delta and the caller accepts
delta in {-1, 0, +1}.
"""
import math

import numpy as np


def documented_dft_size(bank, S, pad, max_support):
    frame_length = max_support + S - 1
    min_bw = min(r - l for l, r in bank.supports_hz)
    d = max(frame_length, int(math.ceil(2 * bank.sampling_rate / min_bw)))
    if pad:
        p = 1
        while p < d:
            p *= 2
        d = p
    return d


def geometry(bank, style):
    """(T, M): translation and clamp length as documented (longest filter's support)."""
    sup = bank.supports
    if style == "centered":
        M = max(r - l for l, r in sup)
        T = M // 2
    else:
        T = max(max(-l for l, r in sup), 0)
        M = max(r for l, r in sup) + T
    return T, M


def taps_for(bank, i, D, style, T, M):
    """Clamped taps g[m], m in [0, M), and the time t0 of tap 0 (g[m] = h(t0 + m))."""
    h = np.asarray(bank.get_impulse_response(i, D))
    if style == "centered":
        l, r = bank.supports[i]
        mid = (l + r) // 2
        t0 = -(T - mid + 1)
    else:
        t0 = -T
    g = np.array([h[(t0 + m) % D] for m in range(M)])
    return g, t0


def conv_at(x, g, t0, idx):
    """(x * h)[n] for the integer positions in idx, with h(t0 + m) = g[m], x zero outside."""
    N, M = len(x), len(g)
    if N == 0:
        return np.zeros(len(idx), dtype=g.dtype)
    full = np.convolve(x.astype(np.float64), g)  # full[j] = sum_m g[m] x[j - m], j in [0, N+M-1)
    out = np.zeros(len(idx), dtype=full.dtype)
    # (x*h)[n] = sum_m g[m] x[n - t0 - m] = full[n - t0]
    j = np.asarray(idx) - t0
    ok = (j >= 0) & (j < len(full))
    out[ok] = full[j[ok]]
    return out


def column(x, g, t0, K, S, window, start0, shift, p):
    """Column of K frame values for one filter with alignment `shift`."""
    n_lo = start0 + shift
    idx = np.arange(n_lo, n_lo + (K + 1) * S)
    y = np.abs(conv_at(x, g, t0, idx)) ** p
    out = np.zeros(K)
    for k in range(K):
        out[k] = float(np.dot(window, y[k * S : k * S + 2 * S]))
    return out
