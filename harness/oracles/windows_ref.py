"""Reference models for C20, written from the documentation (numpy window docstrings, the GammaWindow
class docstring, the shift theorem) - none of them calls the numpy window functions or the code under test.
"""
import math

import numpy as np

# documented continuous-limit area of each shape per unit of (width - 1)
AREA = {"bartlett": 0.5, "blackman": 0.42, "hamming": 0.54, "hann": 0.5}


def shape(kind, width):
    """The un-normalised window of numpy.bartlett/blackman/hamming/hanning(width) from its closed form."""
    M = int(width)
    if M < 1:
        return np.zeros(0)
    if M == 1:
        return np.ones(1)
    out = np.empty(M)
    for n in range(M):
        if kind == "bartlett":
            out[n] = 2.0 / (M - 1) * ((M - 1) / 2.0 - abs(n - (M - 1) / 2.0))
        else:
            a = 2.0 * math.pi * n / (M - 1)
            if kind == "hann":
                out[n] = 0.5 - 0.5 * math.cos(a)
            elif kind == "hamming":
                out[n] = 0.54 - 0.46 * math.cos(a)
            elif kind == "blackman":
                out[n] = 0.42 - 0.5 * math.cos(a) + 0.08 * math.cos(2 * a)
            else:
                raise ValueError(kind)
    return out


def normalised(kind, width):
    """Shape divided by its area c * (width - 1) (the sample spacing is 1); width <= 1 is divided by c."""
    return shape(kind, width) / (AREA[kind] * max(1, int(width) - 1))


def gamma_density(t, order, alpha):
    """Gamma probability density alpha^n t^(n-1) exp(-alpha t) / (n-1)!  (0 for t < 0)."""
    if t < 0:
        return 0.0
    if t == 0:
        return alpha if order == 1 else 0.0
    return math.exp(order * math.log(alpha) + (order - 1) * math.log(t) - alpha * t - math.lgamma(order))


def reversed_gamma(width, order, peak):
    """Time-reversed gamma density sampled at t = width-1, ..., 0 with the mode (n-1)/alpha at
    t = width - peak*width, i.e. alpha = (order - 1) / (width - peak * width). order >= 2 only."""
    alpha = (order - 1) / (width - peak * width)
    return np.array([gamma_density(float(width - 1 - i), order, alpha) for i in range(width)])


def self_test():
    # closed forms: symmetric, peak 1 in the middle of odd widths, known end points, partition of unity
    for kind, end in (("bartlett", 0.0), ("blackman", 0.0), ("hamming", 0.08), ("hann", 0.0)):
        for M in (2, 3, 8, 9, 64, 101):
            w = shape(kind, M)
            assert len(w) == M and np.allclose(w, w[::-1], atol=1e-15), (kind, M)
            assert abs(w[0] - end) < 1e-15, (kind, M, w[0])
            if M % 2:
                assert abs(w[M // 2] - 1.0) < 1e-15, (kind, M)
        # Riemann sum of the continuous shape -> area
        M = 200001
        assert abs(shape(kind, M).sum() / (M - 1) - AREA[kind]) < 1e-5, kind
    # gamma density integrates to one and has its mode at (n-1)/alpha
    for order, alpha in ((2, 0.3), (5, 0.05)):
        ts = np.arange(0, 4000) * 0.25
        d = np.array([gamma_density(t, order, alpha) for t in ts])
        assert abs(d.sum() * 0.25 - 1.0) < 1e-3
        assert abs(ts[int(np.argmax(d))] - (order - 1) / alpha) <= 0.25
    # direct-summation inverse DFT against the shift theorem on a delta and against numpy's FFT
    rng = np.random.Generator(np.random.PCG64(5))
    for D in (1, 2, 7, 16):
        X = rng.standard_normal(D) + 1j * rng.standard_normal(D)
        assert np.allclose(idft(X), np.fft.ifft(X), atol=1e-12)
    assert np.allclose(idft(np.ones(8)), np.eye(8)[0], atol=1e-14)
    assert np.allclose(place([1, 2, 3], 2, 4), [3, 0, 1, 2])


def place(seg, start, D):
    """Full-length spectrum with seg[j] added at bin (start + j) mod D."""
    full = np.zeros(D, dtype=np.complex128)
    for j, v in enumerate(np.asarray(seg, dtype=np.complex128)):
        full[(start + j) % D] += v
    return full


def idft(spec):
    """Inverse DFT by direct summation (no FFT library): x[t] = 1/D sum_k X[k] exp(2 pi i k t / D)."""
    D = len(spec)
    k = np.arange(D)
    kt = np.outer(k, k) % D  # reduce the phase index exactly before the float multiply
    return (np.exp(2j * np.pi * kt / D) @ np.asarray(spec, dtype=np.complex128)) / D
