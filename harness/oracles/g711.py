"""Independent ITU-T G.711 expander (mu-law and A-law code -> 16-bit linear PCM).

Written from the recommendation's segment description, NOT from the lookup tables of the code
under test (this module never imports pydrobert):

* mu-law (G.711 table 2): the transmitted octet is the bit-inverse of sign|segment|interval.
  With s = segment (0..7) and q = interval (0..15) the decoder output of the 14-bit uniform
  code is   y14 = 2**s * (2*q + 33) - 33   (0 .. 8031).
  The customary 16-bit representation (Sun/CCITT g711.c, sox, sph2pipe, audioop) is
  4 * y14, i.e. ((q << 3) + 0x84 << s) - 0x84.  Inverted sign bit 1 -> negative.
* A-law (G.711 table 1): the transmitted octet has its even bits inverted (XOR 0x55).
  With s = segment, q = interval the 13-bit decoder output is
      y13 = 2*q + 1                 for s == 0
      y13 = 2**(s-1) * (2*q + 33)   for s >= 1          (1 .. 4032)
  and the 16-bit representation is 8 * y13.  Sign bit 1 (after the XOR) -> positive.

`self_test()` cross-checks the closed forms against the shift/add formulation of the reference
C code, the anchor values printed in the recommendation and - when the interpreter still ships
it - the stdlib `audioop` module.
"""
import numpy as np


def ulaw_expand_code(code: int) -> int:
    u = (~code) & 0xFF
    sign = u & 0x80
    s = (u >> 4) & 0x07
    q = u & 0x0F
    y14 = (1 << s) * (2 * q + 33) - 33
    y = 4 * y14
    return -y if sign else y


def alaw_expand_code(code: int) -> int:
    a = (code ^ 0x55) & 0xFF
    sign = a & 0x80
    s = (a >> 4) & 0x07
    q = a & 0x0F
    if s == 0:
        y13 = 2 * q + 1
    else:
        y13 = (1 << (s - 1)) * (2 * q + 33)
    y = 8 * y13
    return y if sign else -y


def _table(fn):
    return np.array([fn(c) for c in range(256)], dtype=np.int16)


ULAW_TABLE = _table(ulaw_expand_code)
ALAW_TABLE = _table(alaw_expand_code)


def expand(codes, law: str) -> np.ndarray:
    """codes: uint8 array -> int16 array of the same shape."""
    codes = np.asarray(codes)
    if codes.dtype != np.uint8:
        raise ValueError("codes must be uint8")
    if law == "ulaw":
        return ULAW_TABLE[codes]
    if law == "alaw":
        return ALAW_TABLE[codes]
    raise ValueError("unknown law %r" % (law,))


# ---------------------------------------------------------------------------- self test


def _ulaw_shift_form(code):
    # formulation of the CCITT reference C code (bias 0x84)
    u = (~code) & 0xFF
    t = ((u & 0x0F) << 3) + 0x84
    t <<= (u & 0x70) >> 4
    return (0x84 - t) if (u & 0x80) else (t - 0x84)


def _alaw_shift_form(code):
    a = code ^ 0x55
    t = (a & 0x0F) << 4
    seg = (a & 0x70) >> 4
    if seg == 0:
        t += 8
    elif seg == 1:
        t += 0x108
    else:
        t += 0x108
        t <<= seg - 1
    return t if (a & 0x80) else -t


def self_test():
    """Raises AssertionError when the reference model is inconsistent."""
    for c in range(256):
        assert ulaw_expand_code(c) == _ulaw_shift_form(c), ("ulaw", c)
        assert alaw_expand_code(c) == _alaw_shift_form(c), ("alaw", c)
    # anchors from the recommendation (scaled to 16 bit)
    assert ulaw_expand_code(0xFF) == 0 and ulaw_expand_code(0x7F) == 0
    assert ulaw_expand_code(0x80) == 32124 and ulaw_expand_code(0x00) == -32124
    assert ulaw_expand_code(0xFE) == 8 and ulaw_expand_code(0x7E) == -8
    assert alaw_expand_code(0xD5) == 8 and alaw_expand_code(0x55) == -8
    assert alaw_expand_code(0xAA) == 32256 and alaw_expand_code(0x2A) == -32256
    # odd symmetry in the sign bit and strict monotonicity inside each polarity
    for c in range(128):
        assert ulaw_expand_code(c) == -ulaw_expand_code(c | 0x80)
        assert alaw_expand_code(c) == -alaw_expand_code(c | 0x80)
    mags_u = [ulaw_expand_code((~m) & 0x7F | 0x80) for m in range(128)]  # positive codes by magnitude index
    assert all(b > a for a, b in zip(mags_u, mags_u[1:])), "ulaw magnitudes not increasing"
    mags_a = [alaw_expand_code((m | 0x80) ^ 0x55) for m in range(128)]
    assert all(b > a for a, b in zip(mags_a, mags_a[1:])), "alaw magnitudes not increasing"
    assert len(set(ALAW_TABLE.tolist())) == 256 and len(set(ULAW_TABLE.tolist())) == 255
    try:
        import warnings

        with warnings.catch_warnings():
            warnings.simplefilter("ignore")
            import audioop  # removed in Python 3.13
    except ImportError:
        audioop = None
    if audioop is not None:
        raw = bytes(range(256))
        u = np.frombuffer(audioop.ulaw2lin(raw, 2), dtype=np.int16)
        a = np.frombuffer(audioop.alaw2lin(raw, 2), dtype=np.int16)
        assert np.array_equal(u, ULAW_TABLE), "ulaw differs from audioop"
        assert np.array_equal(a, ALAW_TABLE), "alaw differs from audioop"
    return True


if __name__ == "__main__":
    self_test()
    print("g711 self-test ok")
