"""Our own NIST SPHERE (NIST_1A) writer for uncompressed files, plus a header parser used
only to self-test the writer.  Never imports the code under test.

File layout (NIST SPHERE 2.6 documentation):
    "NIST_1A\n" + "%7d\n" % header_size          (16 bytes; header_size is a multiple of 1024)
    zero or more lines  "<name> -<type> <value>\n"  with type  i (integer), r (real) or sN (string
    of N characters)
    "end_head\n", blank padded to header_size
    sample data, frames interleaved by channel, 2-byte PCM in the byte order given by
    sample_byte_format ("01" = little endian, "10" = big endian) or 1-byte mu-law / A-law codes.
"""
import numpy as np

CODINGS = ("pcm01", "pcm10", "ulaw", "alaw")

MANDATORY = (
    "channel_count",
    "sample_count",
    "sample_rate",
    "sample_n_bytes",
    "sample_byte_format",
    "sample_coding",
)

# optional fields seen in real corpora (TIMIT, TIDIGITS, WSJ): name, type, candidate values
EXTRA_POOL = (
    ("database_id", "s", ["TIMIT", "TIDIGITS", "wsj0", "my corpus v2"]),
    ("database_version", "s", ["1.0", "2.6"]),
    ("utterance_id", "s", ["dd_1233_a", "cjf0_sx37", "a b"]),
    ("sample_min", "i", [-32768, -2677, 0]),
    ("sample_max", "i", [32767, 2234, 1]),
    ("sample_sig_bits", "i", [8, 16]),
    ("speaker_id", "s", ["dd", "cjf0"]),
    ("recording_date", "s", ["9-SEP-1982", "01-Jan-1990"]),
    ("sample_checksum", "i", [64712, 0, 1]),
    ("speaking_mode", "s", ["read", "spontaneous speech"]),
    ("snr", "r", ["42.5", "-3.25", "1e1"]),
    ("recording_gain", "r", ["0.000000", "12.5"]),
    ("microphone", "s", ["Sennheiser HMD414", "unknown"]),
    ("channels_interleaved", "s", ["TRUE"]),
)


def frame_bytes(coding, channels):
    return channels * (2 if coding.startswith("pcm") else 1)


def mandatory_fields(coding, channels, sample_count, sample_rate):
    pcm = coding.startswith("pcm")
    return {
        "channel_count": ("i", channels),
        "sample_count": ("i", sample_count),
        "sample_rate": ("i", sample_rate),
        "sample_n_bytes": ("i", 2 if pcm else 1),
        "sample_byte_format": ("s", coding[3:] if pcm else "1"),
        "sample_coding": ("s", "pcm" if pcm else coding),
    }


def format_field(name, typ, value):
    if typ == "i":
        return "%s -i %d\n" % (name, int(value))
    if typ == "r":
        return "%s -r %s\n" % (name, value)
    if typ == "s":
        value = str(value)
        if "\n" in value or not value:
            raise ValueError("bad string value")
        return "%s -s%d %s\n" % (name, len(value), value)
    raise ValueError("unknown field type %r" % (typ,))


def draw_field_list(coding, channels, sample_count, sample_rate, layout_seed, n_extra, long_extra=0,
                    omit_byte_format=False):
    """Mandatory fields in a seeded order interleaved with n_extra optional fields (and, when
    long_extra > 0, one string field of that many characters, which pushes later fields past
    the first 1024-byte block)."""
    rng = np.random.Generator(np.random.PCG64(layout_seed))
    mand = mandatory_fields(coding, channels, sample_count, sample_rate)
    items = [(k, mand[k][0], mand[k][1]) for k in MANDATORY]
    if omit_byte_format and not coding.startswith("pcm"):
        # NIST requires sample_byte_format only when sample_n_bytes > 1
        items = [it for it in items if it[0] != "sample_byte_format"]
    n_extra = min(n_extra, len(EXTRA_POOL))
    if n_extra:
        for i in rng.choice(len(EXTRA_POOL), size=n_extra, replace=False):
            name, typ, vals = EXTRA_POOL[int(i)]
            items.append((name, typ, vals[int(rng.integers(0, len(vals)))]))
    if long_extra:
        words = "the quick brown fox jumps over the lazy dog "
        items.append(("prompt_text", "s", (words * (long_extra // len(words) + 1))[:long_extra].rstrip() or "x"))
    order = rng.permutation(len(items))
    return [items[int(i)] for i in order]


def build_header(fields, blocks=None, pad=b" "):
    """fields: list of (name, type, value). blocks: header size in units of 1024 bytes
    (None = smallest that fits; a value too small for the fields is raised to the minimum)."""
    body = "".join(format_field(*f) for f in fields) + "end_head\n"
    body = body.encode("ascii")
    need = 16 + len(body)
    min_blocks = (need + 1023) // 1024
    if blocks is None:
        blocks = min_blocks
    blocks = max(blocks, min_blocks)
    size = 1024 * blocks
    head = b"NIST_1A\n" + ("%7d\n" % size).encode("ascii") + body
    assert len(head) <= size
    return head + pad * (size - len(head))


def encode_data(frames, coding):
    """frames: (n, c) int16 samples for pcm*, (n, c) uint8 codes for ulaw/alaw."""
    frames = np.asarray(frames)
    if frames.ndim != 2:
        raise ValueError("frames must be (n, channels)")
    if coding == "pcm01":
        if frames.dtype != np.int16:
            raise ValueError("pcm needs int16")
        return frames.astype("<i2").tobytes(order="C")
    if coding == "pcm10":
        if frames.dtype != np.int16:
            raise ValueError("pcm needs int16")
        return frames.astype(">i2").tobytes(order="C")
    if coding in ("ulaw", "alaw"):
        if frames.dtype != np.uint8:
            raise ValueError("g711 needs uint8 codes")
        return frames.tobytes(order="C")
    raise ValueError("unknown coding %r" % (coding,))


def write_sphere(frames, coding, sample_rate=16000, blocks=None, layout_seed=0, n_extra=0,
                 declared_count=None, long_extra=0, omit_byte_format=False, pad=b" "):
    """Return the bytes of a SPHERE file holding `frames` ((n, c) array)."""
    frames = np.asarray(frames)
    n, c = frames.shape
    fields = draw_field_list(
        coding, c, n if declared_count is None else declared_count, sample_rate, layout_seed, n_extra,
        long_extra, omit_byte_format,
    )
    return build_header(fields, blocks, pad) + encode_data(frames, coding)


# ---------------------------------------------------------------------------- self test


def parse_header(data: bytes):
    """Independent parser (regex over the text) used to read our own headers back."""
    import re

    if data[:8] != b"NIST_1A\n":
        raise ValueError("magic")
    size = int(data[8:16].decode("ascii"))
    if size % 1024 or size < 1024 or len(data) < size:
        raise ValueError("size")
    text = data[16:size].decode("ascii")
    end = text.index("end_head\n")
    out = {}
    order = []
    for line in text[:end].splitlines():
        m = re.fullmatch(r"(\S+) -(i|r|s(\d+)) (.*)", line)
        if not m:
            raise ValueError("bad line %r" % line)
        name, typ, slen, val = m.group(1), m.group(2), m.group(3), m.group(4)
        if typ == "i":
            val = int(val)
        elif typ == "r":
            float(val)
        else:
            if len(val) != int(slen):
                raise ValueError("string length")
        if name in out:
            raise ValueError("duplicate field")
        out[name] = val
        order.append(name)
    if text[end + 9 :].strip(" ") != "":
        raise ValueError("padding")
    return size, out, order


def self_test():
    rng = np.random.Generator(np.random.PCG64(7))
    seen_orders = set()
    for coding in CODINGS:
        for c in (1, 2, 3, 7):
            for blocks in (None, 1, 2, 3):
                n = int(rng.integers(1, 40))
                if coding.startswith("pcm"):
                    fr = rng.integers(-32768, 32768, size=(n, c)).astype(np.int16)
                else:
                    fr = rng.integers(0, 256, size=(n, c)).astype(np.uint8)
                seed = int(rng.integers(0, 2 ** 31))
                long_extra = int(rng.integers(0, 3)) * 700
                b = write_sphere(fr, coding, 8000, blocks, seed, int(rng.integers(0, 8)), long_extra=long_extra)
                size, fields, order = parse_header(b)
                assert size % 1024 == 0 and size >= 1024 * (blocks or 1), size
                assert size == 1024 * (blocks or 1) or long_extra, size
                assert (len(fields.get("prompt_text", "")) > 600) == bool(long_extra)
                assert fields["channel_count"] == c and fields["sample_count"] == n
                assert fields["sample_rate"] == 8000
                assert fields["sample_n_bytes"] == (2 if coding.startswith("pcm") else 1)
                assert fields["sample_coding"] == ("pcm" if coding.startswith("pcm") else coding)
                if coding.startswith("pcm"):
                    assert fields["sample_byte_format"] == coding[3:]
                assert len(b) - size == n * frame_bytes(coding, c)
                seen_orders.add(tuple(k for k in order if k in MANDATORY))
                payload = b[size:]
                if coding == "pcm01":
                    back = np.array([int.from_bytes(payload[i : i + 2], "little", signed=True) for i in range(0, len(payload), 2)])
                elif coding == "pcm10":
                    back = np.array([int.from_bytes(payload[i : i + 2], "big", signed=True) for i in range(0, len(payload), 2)])
                else:
                    back = np.array(list(payload))
                assert np.array_equal(back.reshape(n, c), fr.astype(np.int64))
    assert len(seen_orders) > 10, "mandatory field order is not being varied"
    return True


if __name__ == "__main__":
    self_test()
    print("sphere_writer self-test ok")
