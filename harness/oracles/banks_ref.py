"""Reference model of the four filter banks, written from the class docstrings and the papers
they cite (not from the implementation).

Layout (docstrings of TriangularOverlappingFilterBank / Fbank / GaborFilterBank):
  * triangular / Fbank: num_filts + 2 vertices equally spaced on the scale between low_hz and
    high_hz; filter i has support (v_i, v_{i+2}) and centre v_{i+1};
  * Gabor / gammatone: num_filts + 1 edges at the half steps of the same grid; filter i lies
    between e_i and e_{i+1}, centred at their midpoint in Hz.

Responses:
  * triangle: linear in Hz, 0 at the outer vertices, 1 at the centre;
  * Fbank: square root of the triangle drawn in mel (Kaldi / HTK);
  * Gabor:  f(t) = C s^-1/2 pi^-1/4 exp(-t^2/(2 s^2) + i xi t),
            F(w) = C sqrt(2 s) pi^1/4 exp(-s^2 (xi - w)^2 / 2), C = 1 with scale_l2_norm, else
            such that max |F| = 1;
  * gammatone: h(t) = c t^(n-1) exp(-a t + i xi t) u(t), H(w) = c (n-1)! / (a + i (w - xi))^n,
            c such that max |H| = 1, or ||h||_2 = 1 with scale_l2_norm.

All angles are radians per sample, `thr` is EFFECTIVE_SUPPORT_THRESHOLD.
"""
import math

from ..strategies import bank_scale_spec, gammatone_alpha, ref_edges, ref_scale_fwd  # noqa: F401

TWO_PI = 2.0 * math.pi
HALF_POWER_LO = 0.5  # "3 dB" read as half power
HALF_POWER_HI = 10.0 ** -0.3  # "3 dB" read literally


# ----------------------------------------------------------------------------- layout


def vertices(spec):
    """tri / Fbank: the n + 2 vertices (Hz)."""
    return ref_edges(spec, 0)


def edges(spec):
    """Gabor / gammatone: the n + 1 intersection points (Hz)."""
    return ref_edges(spec, 0.5)


def layout(spec):
    """-> (centres, bands) with bands[i] = (left, right) in Hz: the triangle's outer vertices or
    the two intersection points of filter i."""
    if spec["alias"] in ("tri", "fbank"):
        v = vertices(spec)
        return list(v[1:-1]), [(v[i], v[i + 2]) for i in range(len(v) - 2)]
    e = edges(spec)
    return [(a + b) / 2 for a, b in zip(e[:-1], e[1:])], list(zip(e[:-1], e[1:]))


# ----------------------------------------------------------------------------- triangles


def triangle(x, left, mid, right):
    if x <= left or x >= right:
        return 0.0
    if x <= mid:
        return (x - left) / (mid - left)
    return (right - x) / (right - mid)


def mel(f):
    return 1127.0 * math.log(1.0 + f / 700.0)


def tri_response(f, left, mid, right):
    """TriangularOverlappingFilterBank: triangle in Hz."""
    return triangle(f, left, mid, right)


def fbank_response_sq(f, left, mid, right):
    """Fbank: the *square* of the response is the triangle in mel."""
    return triangle(mel(f), mel(left), mel(mid), mel(right))


# ----------------------------------------------------------------------------- Gabor


def gabor_params(spec, left, right, thr):
    """Reference parameters of the Gabor filter between two intersection points (Hz)."""
    rate = spec["sampling_rate"]
    half = (right - left) / 2 * TWO_PI / rate
    xi = (right + left) / 2 * TWO_PI / rate
    # |F|^2 at the intersections is 10^-0.3 (3 dB), or ERB = right - left
    k = math.sqrt(math.pi) / 2 if spec.get("erb") else math.sqrt(0.3 * math.log(10))
    std = k / half
    if spec.get("scale_l2_norm"):
        peak_f = math.sqrt(2 * std) * math.pi ** 0.25
        peak_t = std ** -0.5 * math.pi ** -0.25
    else:
        peak_f = 1.0
        peak_t = 1.0 / (std * math.sqrt(TWO_PI))
    # |F| > thr  <=>  |w - xi| < half_support
    half_support = math.sqrt(2 * math.log(peak_f / thr)) / std if peak_f > thr else 0.0
    t_end = std * math.sqrt(2 * math.log(peak_t / thr)) if peak_t > thr else 0.0
    return {"xi": xi, "std": std, "peak_f": peak_f, "peak_t": peak_t,
            "half_support_ang": half_support, "t_end": t_end}


# ----------------------------------------------------------------------------- gammatone


def gammatone_params(spec, left, right, thr):
    rate = spec["sampling_rate"]
    n = spec.get("order", 4)
    xi = (right + left) / 2 * TWO_PI / rate
    a = gammatone_alpha(spec, left, right)
    if spec.get("scale_l2_norm"):
        # int_0^inf c^2 t^(2n-2) exp(-2 a t) dt = c^2 (2n-2)! / (2a)^(2n-1) = 1
        log_c = 0.5 * ((2 * n - 1) * math.log(2 * a) - math.lgamma(2 * n - 1))
    else:
        log_c = n * math.log(a) - math.lgamma(n)
    log_peak = log_c + math.lgamma(n) - n * math.log(a)
    peak_f = math.exp(log_peak)
    # |H| = peak (a^2 / (a^2 + x^2))^(n/2) > thr
    if peak_f > thr:
        half_support = a * math.sqrt(max(math.exp((2.0 / n) * (log_peak - math.log(thr))) - 1.0, 0.0))
    else:
        half_support = 0.0
    return {"xi": xi, "alpha": a, "log_c": log_c, "peak_f": peak_f, "half_support_ang": half_support,
            "order": n, "t_peak": (n - 1) / a}


def gammatone_env(p, t):
    """|h(t)| of the causal (unshifted) reference gammatone."""
    if t <= 0:
        return 0.0
    n = p["order"]
    return math.exp(p["log_c"] + (n - 1) * math.log(t) - p["alpha"] * t)


def gammatone_t_end(p, thr):
    """Last time (samples, unshifted) at which the envelope is still >= thr (0 if never)."""
    n, a = p["order"], p["alpha"]
    t0 = p["t_peak"] if n > 1 else 1e-12
    if gammatone_env(p, max(t0, 1e-12)) < thr and n > 1:
        return 0.0
    lo = max(t0, 1e-12)
    hi = lo + 1.0 / a
    while gammatone_env(p, hi) >= thr:
        hi = lo + 2 * (hi - lo)
        if hi > 1e12:
            break
    for _ in range(200):
        mid = 0.5 * (lo + hi)
        if gammatone_env(p, mid) >= thr:
            lo = mid
        else:
            hi = mid
    return hi


def ref_params(spec, left, right, thr):
    if spec["alias"] == "gabor":
        return gabor_params(spec, left, right, thr)
    if spec["alias"] == "gammatone":
        return gammatone_params(spec, left, right, thr)
    raise ValueError(spec["alias"])


def ref_span_hz(spec, left, right, thr):
    """Width (Hz) of the region where the reference |response| exceeds thr."""
    if spec["alias"] in ("tri", "fbank"):
        return right - left
    p = ref_params(spec, left, right, thr)
    return 2 * p["half_support_ang"] * spec["sampling_rate"] / TWO_PI


def self_test():
    """Tiny consistency checks of the reference itself (harness error when they fail)."""
    thr = 5e-4
    spec = {"alias": "gammatone", "sampling_rate": 8000, "order": 4, "erb": False, "scale_l2_norm": False}
    p = gammatone_params(spec, 1000.0, 1100.0, thr)
    x = 50.0 * TWO_PI / 8000
    h2 = (p["alpha"] ** 2 / (p["alpha"] ** 2 + x * x)) ** 4
    assert abs(h2 - 0.5) < 1e-12, h2
    assert abs(p["peak_f"] - 1) < 1e-12
    # ERB by quadrature
    spec["erb"] = True
    p = gammatone_params(spec, 1000.0, 1100.0, thr)
    a = p["alpha"]
    N = 40000
    X = 400 * a
    s = sum((a * a / (a * a + (-X + 2 * X * (k + 0.5) / N) ** 2)) ** 4 for k in range(N)) * (2 * X / N)
    assert abs(s / (100.0 * TWO_PI / 8000) - 1) < 1e-6, s
    # L2 constant by quadrature
    spec["scale_l2_norm"] = True
    p = gammatone_params(spec, 1000.0, 1100.0, thr)
    T = 60 / p["alpha"]
    s = sum(gammatone_env(p, T * (k + 0.5) / N) ** 2 for k in range(N)) * (T / N)
    assert abs(s - 1) < 1e-6, s
    g = gabor_params({"alias": "gabor", "sampling_rate": 8000, "erb": True}, 1000.0, 1100.0, thr)
    assert abs(math.sqrt(math.pi) / g["std"] - 100.0 * TWO_PI / 8000) < 1e-12
    g = gabor_params({"alias": "gabor", "sampling_rate": 8000}, 1000.0, 1100.0, thr)
    assert abs(math.exp(-(g["std"] * 50.0 * TWO_PI / 8000) ** 2) - HALF_POWER_HI) < 1e-12
    assert abs(fbank_response_sq(1000.0, 500.0, 1000.0, 1500.0) - 1) < 1e-12
    assert tri_response(750.0, 500.0, 1000.0, 2000.0) == 0.5
