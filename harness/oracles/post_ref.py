"""Independent reference models for pydrobert.speech.post (properties C15, C16, C17).

Nothing here imports or calls the code under test.  The models are deliberately written
"the slow way" - explicit index loops, explicit edge handling, extended precision - so
that they share no mechanism (np.pad / np.correlate / reshape tricks / E[x^2]-E[x]^2) with
the implementation they judge.
"""
import numpy as np

LD = np.longdouble

PAD_MODES = ("edge", "constant", "reflect", "symmetric")
# further numpy.pad modes whose padded VALUES depend on the pad width or on statistics of the vector: the
# extension is taken from numpy.pad itself (a trusted library, not the code under test) with the width the
# class documents for a delta of that order (half the length of its composite filter)
NUMPY_PAD_MODES = ("linear_ramp", "wrap", "mean", "maximum", "minimum", "median")


# ----------------------------------------------------------------------------- Deltas


def delta_filter(context_window):
    """First-order regression filter f[j + W] = j / sum_j j^2, j = -W..W (Kaldi / HTK)."""
    W = int(context_window)
    if W < 1:
        raise ValueError("context window must be positive")
    z = LD(0)
    for j in range(-W, W + 1):
        z += LD(j) * LD(j)
    return [LD(j) / z for j in range(-W, W + 1)]


def convolve_full(a, b):
    out = [LD(0)] * (len(a) + len(b) - 1)
    for i in range(len(a)):
        for j in range(len(b)):
            out[i + j] = out[i + j] + a[i] * b[j]
    return out


def delta_filters(num_deltas, context_window):
    """Kaldi's scales_: order 0 is [1], order k is order k-1 convolved with the first-order filter."""
    filts = [[LD(1)]]
    f1 = delta_filter(context_window)
    for _ in range(int(num_deltas)):
        filts.append(convolve_full(filts[-1], f1))
    return filts


def ext_index(i, T, mode):
    """Index into a length-T sequence that position i (possibly outside 0..T-1) refers to under
    the named edge-extension mode; None means "the constant 0"."""
    if T < 1:
        raise ValueError("cannot extend an empty sequence")
    if 0 <= i < T:
        return i
    if mode == "edge":
        return 0 if i < 0 else T - 1
    if mode == "constant":
        return None
    if mode == "reflect":  # ... 3 2 | 1 2 3 | 2 1 ...   (edge sample not repeated)
        if T == 1:
            return 0
        p = 2 * (T - 1)
        m = i % p
        return m if m < T else p - m
    if mode == "symmetric":  # ... 2 1 | 1 2 3 | 3 2 ...   (edge sample repeated)
        p = 2 * T
        m = i % p
        return m if m < T else p - 1 - m
    raise ValueError("unknown pad mode %r" % (mode,))


def deltas_along_last(xm, filt, mode):
    """xm: longdouble array (..., T).  out[..., t] = sum_j filt[j + M] * x_ext[..., t + j]."""
    T = xm.shape[-1]
    M = (len(filt) - 1) // 2
    out = np.zeros(xm.shape, dtype=LD)
    if mode in NUMPY_PAD_MODES:
        flat = xm.reshape(-1, T)
        res = np.zeros(flat.shape, dtype=LD)
        for r in range(flat.shape[0]):
            ext = np.pad(flat[r].astype(np.float64), (M, M), mode).astype(LD)
            for t in range(T):
                acc = LD(0)
                for j in range(-M, M + 1):
                    acc = acc + filt[j + M] * ext[t + j + M]
                res[r, t] = acc
        return res.reshape(xm.shape)
    for t in range(T):
        for j in range(-M, M + 1):
            src = ext_index(t + j, T, mode)
            if src is None:
                continue
            out[..., t] = out[..., t] + filt[j + M] * xm[..., src]
    return out


def norm_axis(axis, ndim, what="axis"):
    if not -ndim <= axis < ndim:
        raise ValueError("%s %d out of range for %d dimensions" % (what, axis, ndim))
    return axis + ndim if axis < 0 else axis


def deltas_ref(x, num_deltas, context_window, mode, axis, target_axis, concatenate):
    """Reference for Deltas.apply as a longdouble tensor (the caller rounds / casts).

    Returns (out, blocks): `out` has the documented layout, `blocks` is the list of the
    num_deltas + 1 tensors of the input's shape (order 0 = the input itself).
    """
    x = np.asarray(x)
    ndim = x.ndim
    ax = norm_axis(axis, ndim)
    xm = np.moveaxis(x.astype(LD), ax, -1)
    filts = delta_filters(num_deltas, context_window)
    blocks = [x.astype(LD)]
    for k in range(1, num_deltas + 1):
        if xm.size == 0:
            d = np.zeros(xm.shape, dtype=LD)
        else:
            d = deltas_along_last(xm, filts[k], mode)
        blocks.append(np.moveaxis(d, -1, ax))
    nb = len(blocks)
    if concatenate:
        ta = norm_axis(target_axis, ndim, "target_axis")
        shape = list(x.shape)
        S = shape[ta]
        shape[ta] = S * nb
        out = np.zeros(shape, dtype=LD)
        for k in range(nb):
            sl = [slice(None)] * ndim
            sl[ta] = slice(k * S, (k + 1) * S)
            out[tuple(sl)] = blocks[k]
    else:
        ta = norm_axis(target_axis, ndim + 1, "target_axis")
        shape = list(x.shape)
        shape.insert(ta, nb)
        out = np.zeros(shape, dtype=LD)
        for k in range(nb):
            sl = [slice(None)] * (ndim + 1)
            sl[ta] = k
            out[tuple(sl)] = blocks[k]
    return out, blocks


# ----------------------------------------------------------------------------- Stack


def stack_ref(x, num_vectors, time_axis, feat_axis, pad_mode):
    """out[t, i*F + f, ...] = in[t*n + i, f, ...] with (time, feature) axes moved to the front.

    pad_mode None drops the incomplete final run, "edge" repeats the last frame, "constant"
    fills with zeros.
    """
    x = np.asarray(x)
    n = int(num_vectors)
    ndim = x.ndim
    ta = norm_axis(time_axis, ndim, "time_axis")
    fa = norm_axis(feat_axis, ndim, "feature axis")
    if ta == fa:
        raise ValueError("time and feature axes coincide")
    xm = np.moveaxis(x, (ta, fa), (0, 1))
    T, F = xm.shape[0], xm.shape[1]
    if pad_mode is None:
        nT = T // n
    else:
        nT = (T + n - 1) // n
    if pad_mode not in (None, "edge", "constant") and nT * n > T:
        # any other mode of numpy.pad: the documented behaviour is "the time axis is padded on the right ... numpy.pad",
        # i.e. the mode sees the whole sequence of every vector (wrap, mean, reflect ... depend on earlier frames)
        if T < 1:
            raise ValueError("cannot pad an empty time axis")
        xm = np.pad(xm, [(0, nT * n - T)] + [(0, 0)] * (xm.ndim - 1), pad_mode)
        T = nT * n
    out = np.zeros((nT, n * F) + xm.shape[2:], dtype=x.dtype)
    for t in range(nT):
        for i in range(n):
            src = t * n + i
            if src < T:
                out[t, i * F : (i + 1) * F] = xm[src]
            elif pad_mode == "edge":
                out[t, i * F : (i + 1) * F] = xm[T - 1]
            elif pad_mode == "constant":
                pass
            else:
                raise ValueError("unknown pad mode %r" % (pad_mode,))
    return np.moveaxis(out, (0, 1), (ta, fa))


# ----------------------------------------------------------------------------- Standardize


def moments(vectors):
    """Population mean and variance per column of an (N, F) data set, two-pass, longdouble."""
    v = np.asarray(vectors).astype(LD)
    N = v.shape[0]
    mean = np.zeros(v.shape[1], dtype=LD)
    for i in range(N):
        mean = mean + v[i]
    mean = mean / LD(N)
    var = np.zeros(v.shape[1], dtype=LD)
    for i in range(N):
        d = v[i] - mean
        var = var + d * d
    var = var / LD(N)
    return mean, var


def standardize_ref(x, mean, var, axis, norm_var):
    """(x - mean) / sqrt(var) (or x - mean) per coefficient of `axis`, longdouble."""
    x = np.asarray(x)
    ax = norm_axis(axis, x.ndim)
    xm = np.moveaxis(x.astype(LD), ax, -1)
    out = xm - mean
    if norm_var:
        out = out / np.sqrt(var)
    return np.moveaxis(out, -1, ax)


def tensor_vectors(x, axis):
    """The feature vectors (rows of an (N, F) matrix) contained in tensor x along `axis`."""
    x = np.asarray(x)
    ax = norm_axis(axis, x.ndim)
    xm = np.moveaxis(x, ax, -1)
    return xm.reshape(-1, x.shape[ax])


# ----------------------------------------------------------------------------- self test


def self_test():
    """Tiny hand-computed anchors; a failure is a harness error, never a violation."""
    f = delta_filter(2)
    want = [-0.2, -0.1, 0.0, 0.1, 0.2]
    assert all(abs(float(a) - b) < 1e-15 for a, b in zip(f, want)), f
    f2 = delta_filters(2, 1)[2]  # [-.5,0,.5]*[-.5,0,.5]
    assert [round(float(v), 12) for v in f2] == [0.25, 0.0, -0.5, 0.0, 0.25], f2
    # published index patterns of the four modes on [1,2,3]
    seq = [1, 2, 3]
    pat = {
        "edge": [1, 1, 1, 1, 2, 3, 3, 3, 3],
        "constant": [0, 0, 0, 1, 2, 3, 0, 0, 0],
        "reflect": [2, 3, 2, 1, 2, 3, 2, 1, 2],
        "symmetric": [3, 2, 1, 1, 2, 3, 3, 2, 1],
    }
    for mode, want in pat.items():
        got = []
        for i in range(-3, 6):
            s = ext_index(i, 3, mode)
            got.append(0 if s is None else seq[s])
        assert got == want, (mode, got)
    # a ramp has first delta = slope and second delta = 0 away from the edges
    x = np.arange(9, dtype=np.float64) * 3.0
    out, blocks = deltas_ref(x, 2, 2, "edge", 0, 0, False)
    assert out.shape == (3, 9)
    assert abs(float(blocks[1][4]) - 3.0) < 1e-12 and abs(float(blocks[2][4])) < 1e-12
    # edge handling, first delta at t=0 with W=1: (x[1]-x[0])/2
    out, blocks = deltas_ref(np.array([1.0, 4.0, 9.0]), 1, 1, "edge", -1, -1, True)
    assert out.shape == (6,) and abs(float(out[3]) - 1.5) < 1e-15 and abs(float(out[5]) - 2.5) < 1e-15
    # Stack: documented example layout
    x = np.arange(10).reshape(5, 2)
    s = stack_ref(x, 2, 0, 1, None)
    assert s.tolist() == [[0, 1, 2, 3], [4, 5, 6, 7]], s
    s = stack_ref(x, 2, 0, -1, "edge")
    assert s.tolist() == [[0, 1, 2, 3], [4, 5, 6, 7], [8, 9, 8, 9]], s
    s = stack_ref(x.T, 3, 1, 0, "constant")
    assert s.tolist() == [[0, 6], [1, 7], [2, 8], [3, 9], [4, 0], [5, 0]], s
    m, v = moments([[1.0, -2.0], [3.0, -2.0]])
    assert [float(a) for a in m] == [2.0, -2.0] and [float(a) for a in v] == [1.0, 0.0]
    r = standardize_ref(np.array([[1.0, 3.0]]).T, m[:1], v[:1], 1, True)
    assert r.ravel().tolist() == [-1.0, 1.0]


_SELF_TESTED = False


def ensure_self_test():
    global _SELF_TESTED
    if not _SELF_TESTED:
        from .. import core

        try:
            self_test()
        except AssertionError as e:  # pragma: no cover
            raise core.HarnessError("post_ref self-test failed: %r" % (e,))
        _SELF_TESTED = True
