"""Independent reference model of the documented STFT feature definition (C02, also C14).

Written from the class/property docstrings of ShortTimeFourierTransformFrameComputer and
LinearFilterBank.get_truncated_response; it never walks a half spectrum and never calls np.pad.
"""
import math

import numpy as np


def documented_dft_size(L, pad):
    if not pad:
        return L
    d = 1
    while d < L:
        d *= 2
    return d


def num_frames(N, L, S):
    if N < L // 2 + 1:
        return 0
    return (N + S // 2) // S


def frame_start(k, L, S, style, kaldi):
    if style == "causal":
        return k * S
    if kaldi:
        return k * S - L // 2 + S // 2
    return k * S - (L + 1) // 2 + 1


def reflect_index(i, N):
    """Whole-sample symmetric reflection (... x1 x0 | x0 x1 ... xN-1 | xN-1 xN-2 ...)."""
    p = i % (2 * N)
    return p if p < N else 2 * N - 1 - p


def frames(x, L, S, style, kaldi):
    N = len(x)
    K = num_frames(N, L, S)
    out = np.zeros((K, L), dtype=np.float64)
    for k in range(K):
        a = frame_start(k, L, S, style, kaldi)
        for j in range(L):
            out[k, j] = x[reflect_index(a + j, N)]
    return out


def full_response_from_truncated(bin_idx, trnc, width, is_real):
    """The two recipes printed in the get_truncated_response docstring."""
    trnc = np.asarray(trnc)
    full = np.zeros(width, dtype=np.complex128)
    n = len(trnc)
    if is_real:
        full[bin_idx : bin_idx + n] = trnc
        mirrored = trnc[: None if bin_idx else 0 : -1].conj()
        lo = width - bin_idx - n + 1
        hi = width - bin_idx + 1
        full[lo:hi] = mirrored
    else:
        wrap = min(bin_idx + n, width) - bin_idx
        full[bin_idx : bin_idx + wrap] = trnc[:wrap]
        full[: n - wrap] = trnc[wrap:]
    return full


def stft_features(x, bank, window, L, S, D, style, kaldi, use_log, use_power, include_energy, log_floor):
    x = np.asarray(x, dtype=np.float64)
    F = frames(x, L, S, style, kaldi)
    K = F.shape[0]
    nf = bank.num_filts
    ncol = nf + (1 if include_energy else 0)
    out = np.zeros((K, ncol), dtype=np.float64)
    if K == 0:
        return out
    Hs = []
    for i in range(nf):
        b, t = bank.get_truncated_response(i, D)
        Hs.append(full_response_from_truncated(b, t, D, bank.is_real))
    X = np.fft.fft(F * window[None, :], n=D, axis=1)
    p = 2 if use_power else 1
    col = 0
    if include_energy:
        e = np.mean(F ** 2, axis=1)
        if not use_power:
            e = np.sqrt(e)
        out[:, 0] = e
        col = 1
    for i in range(nf):
        out[:, col + i] = np.sum(np.abs(X * Hs[i][None, :]) ** p, axis=1)
    if use_log:
        out = np.log(np.maximum(out, log_floor))
    return out


def natural_scale(x, window, L, S, D, style, kaldi, use_power):
    """The coefficient an all-pass unit-gain filter would produce on the loudest frame: the
    scale against which FFT round-off (and a 1e-17 'zero' at a triangle vertex) is measured."""
    F = frames(np.asarray(x, dtype=np.float64), L, S, style, kaldi)
    if F.shape[0] == 0:
        return 0.0
    X = np.fft.fft(F * window[None, :], n=D, axis=1)
    return float(np.max(np.sum(np.abs(X) ** (2 if use_power else 1), axis=1)))


def natural_rows(x, window, L, S, D, style, kaldi, use_power):
    """Per frame: the coefficient an all-pass unit-gain filter would produce on THAT frame (round-off of the
    frame's transform is proportional to the frame's own level, not to the loudest frame of the utterance)."""
    F = frames(np.asarray(x, dtype=np.float64), L, S, style, kaldi)
    if F.shape[0] == 0:
        return np.zeros(0)
    X = np.fft.fft(F * window[None, :], n=D, axis=1)
    return np.sum(np.abs(X) ** (2 if use_power else 1), axis=1)


def compare_features_per_frame(got, ref, use_log, nat_rows, energy_col=False, rtol=1e-9, afrac=1e-12, floor=1e-300):
    """Every frame is judged at its own scale: |a-b| <= rtol*|b| + afrac*(all-pass coefficient of that frame);
    the energy coefficient (mean square of the frame) purely relatively."""
    got = np.asarray(got, dtype=np.float64)
    ref = np.asarray(ref, dtype=np.float64)
    if got.shape != ref.shape:
        return "shape %r, reference %r" % (got.shape, ref.shape)
    if got.size == 0:
        return None
    if not np.all(np.isfinite(got)):
        return "non-finite values in the output"
    if use_log:
        with np.errstate(over="ignore"):
            g, r = np.exp(got), np.exp(ref)
    else:
        g, r = got, ref
    # floor: values below the smallest normal number of the working precision carry no relative precision
    tol = rtol * np.abs(r) + afrac * np.asarray(nat_rows)[:, None] + floor
    if energy_col:
        tol[:, 0] = rtol * np.abs(r[:, 0]) + floor
    bad = np.abs(g - r) > tol
    if np.any(bad):
        k, c = np.argwhere(bad)[0]
        return "frame %d coefficient %d is %r, reference %r (frame scale %r)" % (k, c, float(g[k, c]), float(r[k, c]), float(nat_rows[k]))
    return None


def compare_features(got, ref, use_log, rtol=1e-9, atol_frac=1e-12, natural=0.0):
    """Return None when equal within tolerance (linear domain, per column relative to the column
    maximum plus a fraction of the whole-matrix maximum), else a message."""
    got = np.asarray(got, dtype=np.float64)
    ref = np.asarray(ref, dtype=np.float64)
    if got.shape != ref.shape:
        return "shape %r, reference %r" % (got.shape, ref.shape)
    if got.size == 0:
        return None
    if not np.all(np.isfinite(got)):
        return "non-finite values in the output"
    if use_log:
        with np.errstate(over="ignore"):
            g, r = np.exp(got), np.exp(ref)
    else:
        g, r = got, ref
    gmax = float(np.max(np.abs(r)))
    colmax = np.max(np.abs(r), axis=0, keepdims=True)
    tol = rtol * colmax + atol_frac * max(gmax, natural) + 1e-300
    bad = np.abs(g - r) > tol
    if np.any(bad):
        k, c = np.argwhere(bad)[0]
        return "frame %d coefficient %d is %r, reference %r (column max %r, matrix max %r)" % (
            k, c, float(g[k, c]), float(r[k, c]), float(colmax[0, c]), gmax)
    return None
