"""C11 - read_signal returns exactly what was stored, from a path or a stream; wds_read_signal
never raises.

Every container is written with its own writer (wave, soundfile, numpy, torch, h5py,
ndarray.tofile, our SPHERE writer); the expected value is the array handed to that writer.
"""
import io
import os
import signal
import tempfile
import wave

import numpy as np
from hypothesis import strategies as st

from ..core import Clause, Discard, HarnessError, Violation, call, canon, expect_raises, require
from ..oracles import sphere_writer as sw
from . import c12 as _c12

PROPERTY = "C11"
LEVEL = "exploration"
RULE = (
    "Generated (container, array shapes/dtypes/entries, key, requested dtype) tuples read back through a "
    "file name, an open file and a BytesIO; oracle = the arrays handed to the container's own writer. "
    "Non-trivial = multi-channel or multi-entry container, or a dtype cast, or a mutated valid file for the "
    "webdataset hook; distinct by the full case."
)
ASSUMPTIONS = [
    "wav is 16- or 32-bit PCM written by the stdlib wave module; flac/aiff are 16-bit written by soundfile; "
    "8-/24-bit wav and ogg are outside the statement and are not generated",
    "FLAC files hold at least one frame (libsndfile cannot reopen an empty FLAC it wrote itself)",
    "when a dtype is requested the stored values are representable in it (|v| <= 100, non-negative for unsigned "
    "targets, float -> int by truncation): out-of-range narrowing is conversion-library specific (HDF5 saturates, "
    "numpy wraps) and is not claimed",
    "raw binary (force_as='file') has no stored dtype or shape: 1-D arrays are read back with dtype= the dtype written "
    "(None for float64); BytesIO is not used for it (numpy.fromfile needs a real file)",
    "npz/hdf5 keys are non-empty strings; default entry = 'arr_0' (npz) / first dataset in depth-first sorted-key order (hdf5)",
    "names for the unknown-suffix clause avoid upper-case variants of known suffixes, 'ark:'/'scp:' prefixes and a trailing '|'",
    "unknown force_as values avoid any spelling whose lower case is a valid value; the empty string is an unknown value",
    "a wds_read_signal call that does not return within 300 s or kills the process is reported as a violation",
]

# The statement promises "never raises, returning None for anything it cannot decode"; the function is
# annotated Optional[np.ndarray] and DESIGN.md words the oracle as "returns an ndarray or None".  With
# STRICT_WDS_TYPE a return value that is neither (e.g. the NpzFile numpy.load yields for an npz archive
# under an ".npy" key) is a violation; set it to False to accept any returned object.
STRICT_WDS_TYPE = True

AUDIO = ("wav16", "wav32", "flac", "aiff", "sph")
ARRAY = ("npy", "npz", "npzc", "pt", "hdf5")
CONTAINERS = AUDIO + ARRAY + ("raw",)
SUFFIX = {
    "wav16": ".wav", "wav32": ".wav", "flac": ".flac", "aiff": ".aiff", "sph": ".sph", "npy": ".npy",
    "npz": ".npz", "npzc": ".npz", "pt": ".pt", "hdf5": ".hdf5", "raw": ".raw",
}
FORCE_AS = {
    "wav16": "wav", "wav32": "wav", "flac": "flac", "aiff": "aiff", "sph": "sph", "npy": "npy",
    "npz": "npz", "npzc": "npz", "pt": "pt", "hdf5": "hdf5", "raw": "file",
}
ARRAY_DTYPES = ["int8", "int16", "int32", "int64", "uint8", "float16", "float32", "float64"]
CAST_TARGETS = ["int8", "uint8", "int16", "int32", "int64", "float16", "float32", "float64"]
WIDE_TARGETS = ["int16", "int32", "int64", "float32", "float64"]
VALID_FORCE_AS = {"table", "wav", "hdf5", "npy", "npz", "pt", "sph", "kaldi", "file", "soundfile", "ogg", "flac", "aiff"}
NPZ_NAMES = ["a", "b", "x y", "k.1", "feats", "arr_9"]
H5_DATASETS = ["g", "sig", "b", "a/z", "a/b/e", "a/b/d/f", "a/b/c/x", "0/1", "Z/y", "a/b/d/g"]
H5_EMPTY_GROUPS = ["a/a", "a/b/c/empty", "A", "e/f", "0/0"]
STEMS = ["utt", "a b", "x.y.z", "s1.wav", "1", "file.npy.old"]


# ------------------------------------------------------------------------------ array builders


def make_array(spec, small=False, nonneg=False):
    """Pure function of the spec: {"shape": [...], "dtype": str, "seed": int}."""
    shape = tuple(spec["shape"])
    dt = np.dtype(spec["dtype"])
    rng = np.random.Generator(np.random.PCG64(spec["seed"]))
    if dt.kind in "iu":
        info = np.iinfo(dt)
        if small:
            lo, hi = (0 if (nonneg or dt.kind == "u") else -100), 100
        else:
            lo, hi = int(info.min), int(info.max)
        arr = rng.integers(lo, hi, size=shape, endpoint=True, dtype=np.int64 if dt != np.uint64 else np.uint64)
        return np.array(arr, dtype=dt, order="C").reshape(shape)
    if dt.kind == "f":
        if small:
            arr = np.asarray(rng.uniform(0.0 if nonneg else -100.0, 100.0, size=shape))
        else:
            arr = np.asarray(rng.standard_normal(size=shape) * (10.0 ** rng.integers(-3, 4)))
            flat = arr.reshape(-1)
            if flat.size >= 4:  # specials survive a bit-exact round trip
                flat[rng.integers(0, flat.size)] = np.nan
                flat[rng.integers(0, flat.size)] = -0.0
                flat[rng.integers(0, flat.size)] = np.inf
        with np.errstate(over="ignore"):
            return np.array(arr, dtype=dt, order="C").reshape(shape)
    raise HarnessError("dtype %r not supported by the generator" % (spec["dtype"],))


def _h5_default(paths):
    """First dataset in depth-first order over sorted keys. paths: {path: is_dataset}."""
    tree = {}
    for p, is_ds in paths.items():
        node = tree
        parts = p.split("/")
        for part in parts[:-1]:
            node = node.setdefault(part, {})
            if node is None:
                raise HarnessError("dataset used as a group: %r" % p)
        if is_ds:
            node[parts[-1]] = None
        else:
            node.setdefault(parts[-1], {})

    def walk(node, prefix):
        for name in sorted(node):
            child = node[name]
            full = prefix + name
            if child is None:
                return full
            found = walk(child, full + "/")
            if found is not None:
                return found
        return None

    return walk(tree, "")


class Built:
    """A container written to disk: path, the entries we stored and the default entry name."""

    def __init__(self, path, entries, default, fmt):
        self.path, self.entries, self.default, self.fmt = path, entries, default, fmt

    def expected(self, key, dtype):
        arr = self.entries[self.default if key is None else key]
        return arr if dtype is None else arr.astype(dtype)


def build(case, td, name=None):
    """Write the container described by the case into td; returns Built."""
    cont = case["container"]
    cast = case.get("dtype")
    small = cast is not None
    nonneg = small and np.dtype(cast).kind == "u"
    path = os.path.join(td, name if name is not None else case.get("stem", "utt") + SUFFIX[cont])
    specs = case["arrays"]
    if cont in ("wav16", "wav32", "flac", "aiff"):
        spec = dict(specs[0], dtype="int32" if cont == "wav32" else "int16")
        arr = make_array(spec, small, nonneg)
        frames = arr[:, None] if arr.ndim == 1 else arr
        if cont in ("wav16", "wav32"):
            w = wave.open(path, "wb")
            try:
                w.setnchannels(frames.shape[1])
                w.setsampwidth(frames.dtype.itemsize)
                w.setframerate(spec.get("rate", 8000))
                w.writeframes(frames.astype("<i%d" % frames.dtype.itemsize).tobytes(order="C"))
            finally:
                w.close()
        else:
            import soundfile

            if cont == "flac" and arr.shape[0] == 0:
                raise Discard()
            with open(path, "wb") as f:  # explicit format: the name may carry any suffix
                soundfile.write(f, arr, spec.get("rate", 8000), subtype="PCM_16", format=cont.upper())
        return Built(path, {"_": arr}, "_", cont)
    if cont == "sph":
        spec = specs[0]
        shape = spec["shape"]
        n, c = shape[0], (shape[1] if len(shape) > 1 else 1)
        if n < 1:
            raise Discard()
        coding = spec["coding"]
        frames = _c12.make_frames(coding, n, c, "noise", spec["seed"])
        if small and coding.startswith("pcm"):
            frames = (np.abs(frames) % 101 if nonneg else frames % 101).astype(np.int16)
        data = sw.write_sphere(frames, coding, spec.get("rate", 8000), spec.get("k", 1), spec["seed"] % 1000, spec["seed"] % 7)
        if coding.startswith("pcm") and data[-frames.size * 2 :][:4] == b"ajkg":
            raise Discard()
        with open(path, "wb") as f:
            f.write(data)
        return Built(path, {"_": _c12.expected_array(coding, frames, None)}, "_", cont)
    if cont == "npy":
        arr = make_array(specs[0], small, nonneg)
        with open(path, "wb") as f:
            np.save(f, arr)
        return Built(path, {"_": arr}, "_", cont)
    if cont == "pt":
        import torch

        arr = make_array(specs[0], small, nonneg)
        with open(path, "wb") as f:
            torch.save(torch.from_numpy(arr.copy()), f)
        return Built(path, {"_": arr}, "_", cont)
    if cont == "raw":
        arr = make_array(specs[0], small, nonneg).reshape(-1)
        arr.tofile(path)
        return Built(path, {"_": arr}, "_", cont)
    if cont in ("npz", "npzc"):
        pos, named, entries = [], {}, {}
        for spec in specs:
            arr = make_array(spec, small, nonneg)
            if spec.get("name") is None:
                entries["arr_%d" % len(pos)] = arr
                pos.append(arr)
            else:
                if spec["name"] in named or spec["name"] in entries:
                    raise Discard()
                named[spec["name"]] = arr
        for k in named:
            if k in entries:
                raise Discard()
        entries.update(named)
        with open(path, "wb") as f:
            (np.savez if cont == "npz" else np.savez_compressed)(f, *pos, **named)
        return Built(path, entries, "arr_0" if pos else None, cont)
    if cont == "hdf5":
        import h5py

        entries, layout = {}, {}
        with h5py.File(path, "w") as f:
            for g in case.get("groups", []):
                f.require_group(g)
                layout[g] = False
            for spec in specs:
                if spec["name"] in entries:
                    raise Discard()
                arr = make_array(spec, small, nonneg)
                f.create_dataset(spec["name"], data=arr)
                entries[spec["name"]] = arr
                layout[spec["name"]] = True
        return Built(path, entries, _h5_default(layout), cont)
    raise HarnessError("unknown container %r" % (cont,))


def same(out, exp, what):
    require(isinstance(out, np.ndarray), "{}: returned {} instead of an ndarray", what, type(out).__name__)
    require(out.shape == exp.shape, "{}: shape {} returned, {} stored", what, tuple(out.shape), tuple(exp.shape))
    require(out.dtype == exp.dtype, "{}: dtype {} returned, {} expected", what, out.dtype, exp.dtype)
    if np.ascontiguousarray(out).tobytes() != np.ascontiguousarray(exp).tobytes():
        neq = ~((out == exp) | ((out != out) & (exp != exp))) if exp.dtype.kind == "f" else (out != exp)
        bad = np.argwhere(neq)
        if len(bad) == 0:  # only the sign of zero / NaN payload differs
            raise Violation("%s: values equal but not bit-identical (signed zero or NaN payload)" % what)
        first = tuple(int(i) for i in bad[0])
        raise Violation(
            "%s: %d of %d values differ, first at index %s: got %r, stored %r"
            % (what, len(bad), exp.size, first, out[first].item(), exp[first].item())
        )


# ------------------------------------------------------------------------------ clause: round trip


def _accesses(cont):
    """(label, how) pairs: every way the statement names for this container."""
    fa = FORCE_AS[cont]
    if cont == "raw":
        return [("path", ("path", "file")), ("file", ("file", "file"))]
    acc = [("path", ("path", None)), ("file", ("file", fa)), ("bytesio", ("bytesio", fa)), ("tmpfile", ("tmpfile", fa)),
           ("barename", ("barename", None))]
    if cont in ("wav16", "wav32", "flac", "aiff"):
        acc.append(("bytesio-soundfile", ("bytesio", "soundfile")))
    return acc


def _read(built, how, dtype, key):
    from pydrobert.speech.util import read_signal

    mode, force_as = how
    np_dtype = None if dtype is None else np.dtype(dtype)
    kw = {}
    if key is not None:
        kw["key"] = key
    if mode == "path":
        return read_signal(built.path, dtype=np_dtype, force_as=force_as, **kw)
    if mode == "barename":
        # the file name alone, relative to the current directory
        old = os.getcwd()
        os.chdir(os.path.dirname(built.path))
        try:
            return read_signal(os.path.basename(built.path), dtype=np_dtype, force_as=force_as, **kw)
        finally:
            os.chdir(old)
    if mode == "file":
        with open(built.path, "rb") as f:
            return read_signal(f, dtype=np_dtype, force_as=force_as, **kw)
    with open(built.path, "rb") as f:
        data = f.read()
    if mode == "tmpfile":
        # a read-only binary stream opened from a file descriptor: its .name is an integer, not a path
        with os.fdopen(os.open(built.path, os.O_RDONLY), "rb") as f:
            return read_signal(f, dtype=np_dtype, force_as=force_as, **kw)
    return read_signal(io.BytesIO(data), dtype=np_dtype, force_as=force_as, **kw)


def check_roundtrip(case):
    cont = case["container"]
    key, dtype = case.get("key"), case.get("dtype")
    with tempfile.TemporaryDirectory(prefix="verif_c11_") as td:
        built = build(case, td)
        if key is None and built.default is None:
            raise Discard()
        if key is not None and key not in built.entries:
            raise Discard()
        stored = built.entries[built.default if key is None else key]
        if cont == "raw":
            # no stored dtype: the caller names it (None means float64)
            rd = None if (stored.dtype == np.float64 and case.get("raw_default")) else (stored.dtype.name if stored.dtype.isnative else stored.dtype.str)
            exp = stored
        else:
            rd = dtype
            exp = built.expected(key, dtype)
        if case.get("first_dtype") and cont != "raw":
            # the same file is first read with ANOTHER dtype (a lossy one): that answer is not judged, but nothing of it
            # may remain in the process when the judged reads follow
            try:
                _read(built, _accesses(cont)[0][1], case["first_dtype"], key)
            except Exception:  # noqa
                pass
        for label, how in _accesses(cont):
            what = "%s%s key=%r dtype=%s via %s(force_as=%r)" % (
                cont, list(stored.shape), key, rd, how[0], how[1])
            out = call(what, _read, built, how, rd, key)
            same(out, exp, what)
    multi_channel = cont in AUDIO and stored.ndim == 2 and stored.shape[1] > 1
    multi_entry = len(built.entries) > 1
    labels = ["container=" + cont, "stored=" + stored.dtype.name, "ndim=%d" % stored.ndim]
    if stored.size == 0:
        labels.append("empty")
    if dtype is not None and cont != "raw":
        labels.append("cast->" + dtype)
    if multi_channel:
        labels.append("multichannel")
    if multi_entry:
        labels.append("multi-entry")
        labels.append("key=default" if key is None else "key=named")
    if cont == "sph":
        labels.append("sph-" + case["arrays"][0]["coding"])
    if case.get("stem", "utt") != "utt":
        labels.append("odd-stem")
    cast = dtype is not None and cont != "raw" and np.dtype(dtype) != stored.dtype
    return {"nontrivial": bool(multi_channel or multi_entry or cast), "labels": labels}


# ------------------------------------------------------------------------------ clause: errors


def _name_is_unrecognised(name):
    """Documented rule: recognised = 'ark:'/'scp:' prefix, a known '.suffix', or a trailing '|'."""
    low = name.lower()
    if low.startswith(("ark", "scp")) or name.endswith("|"):
        return False
    for t in ("wav", "ogg", "flac", "aiff"):
        if low.endswith(t):  # with or without the dot: the doc says "ends with a file type listed"
            return False
    for suf in (".hdf5", ".npy", ".npz", ".pt", ".sph"):
        if low.endswith(suf):
            return False
    return True


def check_errors(case):
    from pydrobert.speech.util import read_signal

    kind = case["kind"]
    labels = ["kind=" + kind, "container=" + case["container"]]
    with tempfile.TemporaryDirectory(prefix="verif_c11_") as td:
        if kind == "unknown_suffix":
            name = case["name"]
            if not name or "/" in name or "\x00" in name or not _name_is_unrecognised(name):
                raise Discard()
            built = build(case, td, name=name)
            path = built.path
            if not case["exists"]:
                os.remove(path)
            what = "read_signal(%r) [%s content, exists=%s]" % (name, case["container"], case["exists"])
            expect_raises(what, IOError, read_signal, path)
            labels.append("exists=%s" % case["exists"])
            return {"nontrivial": True, "labels": labels}
        built = build(case, td)
        if kind == "config_suffix":
            # the set of suffixes handed to soundfile is a documented, user-settable package constant: a name read
            # successfully while its suffix is listed is an unrecognised name (IOError) once the suffix is removed
            from pydrobert.speech import config

            suffix = built.path.rsplit(".", 1)[-1]
            if suffix not in config.SOUNDFILE_SUPPORTED_FILE_TYPES or suffix == "wav":
                raise Discard()
            call("read_signal(%s) while .%s is a soundfile type" % (os.path.basename(built.path), suffix), read_signal, built.path)
            old_types = config.SOUNDFILE_SUPPORTED_FILE_TYPES
            config.SOUNDFILE_SUPPORTED_FILE_TYPES = set(old_types) - {suffix}
            try:
                expect_raises("read_signal of the same name after .%s was removed from SOUNDFILE_SUPPORTED_FILE_TYPES" % suffix,
                              IOError, read_signal, built.path)
            finally:
                config.SOUNDFILE_SUPPORTED_FILE_TYPES = old_types
            return {"nontrivial": True, "labels": labels + ["suffix=" + suffix]}
        if kind == "stream_no_force_as":
            kw = {}
            if case.get("with_dtype"):
                kw["dtype"] = np.dtype("float64")
            if case.get("with_key"):
                kw["key"] = "arr_0"
            if case["stream"] == "file":
                with open(built.path, "rb") as f:
                    expect_raises("read_signal(open file) without force_as", ValueError, read_signal, f, **kw)
            else:
                with open(built.path, "rb") as f:
                    data = f.read()
                expect_raises("read_signal(BytesIO) without force_as", ValueError, read_signal, io.BytesIO(data), **kw)
            labels.append("stream=" + case["stream"])
            return {"nontrivial": True, "labels": labels}
        if kind == "unknown_force_as":
            fa = case["force_as"]
            if fa is None or fa.strip().lower() in VALID_FORCE_AS:
                raise Discard()
            what = "read_signal(%s, force_as=%r)" % (case["stream"], fa)
            if case["stream"] == "path":
                expect_raises(what, ValueError, read_signal, built.path, force_as=fa)
            elif case["stream"] == "file":
                with open(built.path, "rb") as f:
                    expect_raises(what, ValueError, read_signal, f, force_as=fa)
            else:
                with open(built.path, "rb") as f:
                    data = f.read()
                expect_raises(what, ValueError, read_signal, io.BytesIO(data), force_as=fa)
            labels.append("stream=" + case["stream"])
            return {"nontrivial": True, "labels": labels}
    raise HarnessError("unknown kind %r" % (kind,))


# ------------------------------------------------------------------------------ clause: wds on valid files


def check_wds_valid(case):
    from pydrobert.speech.util import read_signal, wds_read_signal

    cont = case["container"]
    with tempfile.TemporaryDirectory(prefix="verif_c11_") as td:
        built = build(case, td)
        if built.default is None:
            raise Discard()
        with open(built.path, "rb") as f:
            data = f.read()
        key = case["keystem"] + SUFFIX[cont]
        what = "wds_read_signal(%r, <%d bytes of %s>)" % (key, len(data), cont)
        out = call(what, wds_read_signal, key, data)
        require(out is not None, "{} returned None for a valid file", what)
        ref = call("read_signal(path)", read_signal, built.path)
        same(out, ref, what + " vs read_signal(path)")
        same(out, built.expected(None, None), what + " vs stored")
        stored = built.entries[built.default]
    multi = (cont in AUDIO and stored.ndim == 2 and stored.shape[1] > 1) or len(built.entries) > 1
    return {"nontrivial": bool(multi), "labels": ["container=" + cont, "multi" if multi else "single"]}


# ------------------------------------------------------------------------------ clause: wds on garbage (forked)

_BASE_CACHE = {}


def base_bytes(base):
    """Bytes of a small valid file: {"container": X, "variant": v}; cached (pure function)."""
    k = canon(base)
    if k in _BASE_CACHE:
        return _BASE_CACHE[k]
    cont, v = base["container"], base["variant"]
    rng = np.random.Generator(np.random.PCG64(1000 + v))
    if cont in AUDIO:
        n, c = int(rng.integers(1, 400)), int(rng.integers(1, 4))
        arrays = [{"shape": [n, c] if c > 1 else [n], "dtype": "int16", "seed": v, "coding": sw.CODINGS[v % 4], "k": 1 + v % 2}]
    elif cont in ("npz", "npzc"):
        arrays = [
            {"name": None, "shape": [int(rng.integers(1, 30)), 3], "dtype": ARRAY_DTYPES[v % 8], "seed": v},
            {"name": "a", "shape": [5], "dtype": "float32", "seed": v + 1},
        ]
    elif cont == "hdf5":
        arrays = [
            {"name": "a/b/d/f", "shape": [int(rng.integers(1, 30)), 4], "dtype": ARRAY_DTYPES[v % 8], "seed": v},
            {"name": "g", "shape": [7], "dtype": "int64", "seed": v + 1},
        ]
    else:
        arrays = [{"shape": [int(rng.integers(1, 60)), 2], "dtype": ARRAY_DTYPES[v % 8], "seed": v}]
    case = {"container": cont, "arrays": arrays, "groups": ["a/a"], "stem": "base"}
    with tempfile.TemporaryDirectory(prefix="verif_c11_") as td:
        built = build(case, td)
        with open(built.path, "rb") as f:
            data = f.read()
    _BASE_CACHE[k] = data
    return data


def apply_ops(data, ops, seed):
    rng = np.random.Generator(np.random.PCG64(seed))
    b = bytearray(data)
    for op in ops:
        name, x, y = op[0], int(op[1]), int(op[2])
        if name == "trunc":
            if b:
                del b[x % (len(b) + 1) :]
        elif name == "chop":  # remove the last x bytes
            if b:
                del b[max(0, len(b) - 1 - x % 64) :]
        elif name == "flip":
            if b:
                b[x % len(b)] ^= 1 << (y % 8)
        elif name == "byte":
            if b:
                b[x % len(b)] = y % 256
        elif name == "noise":  # overwrite a run with random bytes
            if b:
                s = x % len(b)
                ln = 1 + y % 64
                b[s : s + ln] = rng.integers(0, 256, size=min(ln, len(b) - s), dtype=np.uint8).tobytes()
        elif name == "zero":
            if b:
                s = x % len(b)
                ln = 1 + y % 64
                b[s : s + ln] = bytes(min(ln, len(b) - s))
        elif name == "dup":  # insert a copy of a run
            if b:
                s = x % len(b)
                b[s:s] = b[s : s + 1 + y % 64]
        elif name == "drop":  # delete a run
            if b:
                s = x % len(b)
                del b[s : s + 1 + y % 64]
        elif name == "ff":
            if b:
                s = x % len(b)
                ln = 1 + y % 8
                b[s : s + ln] = b"\xff" * min(ln, len(b) - s)
        else:
            raise HarnessError("unknown op %r" % (name,))
    return bytes(b)


def item_bytes(item):
    if item["base"] is None:
        rng = np.random.Generator(np.random.PCG64(item["seed"]))
        data = rng.integers(0, 256, size=item["rand_len"], dtype=np.uint8).tobytes()
        prefix = item.get("prefix")
        if prefix:
            data = bytes.fromhex(prefix) + data
    else:
        data = base_bytes(item["base"])
    return apply_ops(data, item["ops"], item["seed"])


def _child(pairs, wfd):
    """Runs in the forked child: never returns."""
    try:
        devnull = os.open(os.devnull, os.O_WRONLY)
        os.dup2(devnull, 1)
        os.dup2(devnull, 2)
        signal.signal(signal.SIGALRM, signal.SIG_DFL)
        signal.alarm(300)
        from pydrobert.speech.util import wds_read_signal

        for i, (key, data) in enumerate(pairs):
            os.write(wfd, b"S %d\n" % i)
            try:
                r = wds_read_signal(key, data)
                if r is None:
                    msg = "none"
                elif isinstance(r, np.ndarray):
                    msg = "ndarray"
                else:
                    msg = "other " + type(r).__name__
            except BaseException as e:  # noqa - the property says nothing escapes
                msg = "raise %s: %s" % (type(e).__name__, str(e).replace("\n", " ")[:150])
            os.write(wfd, ("R %d %s\n" % (i, msg)).encode("utf-8", "replace"))
    finally:
        os._exit(0)


def run_forked(pairs):
    """Returns ([(index, outcome)], started_index, exit status)."""
    rfd, wfd = os.pipe()
    pid = os.fork()
    if pid == 0:
        os.close(rfd)
        _child(pairs, wfd)
    os.close(wfd)
    chunks = []
    while True:
        c = os.read(rfd, 65536)
        if not c:
            break
        chunks.append(c)
    os.close(rfd)
    _, status = os.waitpid(pid, 0)
    outcomes, started = {}, -1
    for line in b"".join(chunks).decode("utf-8", "replace").splitlines():
        parts = line.split(" ", 2)
        if parts[0] == "S":
            started = int(parts[1])
        elif parts[0] == "R":
            outcomes[int(parts[1])] = parts[2] if len(parts) > 2 else ""
    return outcomes, started, status


def _preload():
    # make sure the decoders are imported before forking (cheap children)
    import h5py  # noqa: F401
    import soundfile  # noqa: F401
    import torch  # noqa: F401
    import pydrobert.speech.util  # noqa: F401


def check_wds_garbage(case):
    _preload()
    items = case["items"]
    if not items:
        raise Discard()
    pairs = [(it["key"], item_bytes(it)) for it in items]
    outcomes, started, status = run_forked(pairs)
    labels = []
    nontrivial = False
    for i, it in enumerate(items):
        desc = "wds_read_signal(%r, <%d bytes; base=%s ops=%s>)" % (
            it["key"], len(pairs[i][1]), it["base"]["container"] if it["base"] else "random", [o[0] for o in it["ops"]])
        if i not in outcomes:
            if i == started:
                if os.WIFSIGNALED(status):
                    sig = os.WTERMSIG(status)
                    if sig == signal.SIGALRM:
                        raise Violation("%s did not return within 300 s (item %d)" % (desc, i))
                    raise Violation("%s killed the process with signal %d (item %d)" % (desc, sig, i))
                raise Violation("%s terminated the process (wait status %d, item %d)" % (desc, status, i))
            raise HarnessError("forked batch lost item %d (status %d)" % (i, status))
        oc = outcomes[i]
        if oc.startswith("other ") and not STRICT_WDS_TYPE:
            oc = "other"
        require(oc in ("none", "ndarray", "other"), "{} -> {} (item {})", desc, oc, i)
        labels.append("result=" + oc)
        labels.append("key=" + (os.path.splitext(it["key"])[1] or "(no suffix)"))
        labels.append("base=" + (it["base"]["container"] if it["base"] else "random"))
        if it["base"] is not None and it["ops"]:
            nontrivial = True
            labels.append("mutated-valid")
            if SUFFIX[it["base"]["container"]] == os.path.splitext(it["key"])[1]:
                labels.append("mutated-valid+matching-suffix")
        labels.append("items")
    return {"nontrivial": nontrivial, "labels": labels}


# ------------------------------------------------------------------------------ strategies


def _seed():
    return st.integers(0, 2 ** 32 - 1)


@st.composite
def _audio_arrays(draw, cont):
    # mostly short; one case in ~12 is long enough to span several internal read blocks of any reader
    n = draw(st.one_of(st.integers(0, 12), st.integers(0, 400), st.integers(0, 400), st.integers(0, 12), st.integers(0, 400),
                       st.integers(0, 400), st.integers(0, 12), st.integers(0, 400), st.integers(0, 400), st.integers(0, 12),
                       st.integers(0, 400), st.sampled_from([16385, 32769, 65537, 70001, 131073])))
    if cont in ("flac", "sph"):
        n = max(n, 1)
    c = draw(st.sampled_from([1, 2, 2, 3, 4]))
    spec = {"shape": [n, c] if c > 1 else [n], "dtype": "int16", "seed": draw(_seed()), "rate": draw(st.sampled_from([8000, 16000, 44100]))}
    if cont == "sph":
        spec["coding"] = draw(st.sampled_from(sw.CODINGS))
        spec["k"] = draw(st.sampled_from([1, 2]))
    return [spec]


def _shape():
    dim = st.one_of(st.integers(1, 6), st.integers(0, 12))
    # (one shape in ten is 0-d: a scalar dataset / array is a valid stored array too)
    return st.one_of(*([st.lists(dim, min_size=1, max_size=3)] * 9 + [st.just([])]))


@st.composite
def _container_case(draw, containers=CONTAINERS, allow_cast=True, allow_key=True):
    cont = draw(st.sampled_from(containers))
    case = {"container": cont, "stem": draw(st.sampled_from(STEMS + ["utt"] * 4)), "key": None, "dtype": None}
    if cont in AUDIO:
        case["arrays"] = draw(_audio_arrays(cont))
    elif cont in ("npy", "pt", "raw"):
        shape = draw(_shape())
        if cont == "raw":
            shape = [draw(st.integers(0, 200))]
            case["raw_default"] = draw(st.booleans())
        case["arrays"] = [{"shape": shape, "dtype": draw(st.sampled_from(ARRAY_DTYPES)), "seed": draw(_seed())}]
    elif cont in ("npz", "npzc"):
        k = draw(st.integers(1, 5))
        names = draw(st.lists(st.one_of(st.none(), st.sampled_from(NPZ_NAMES)), min_size=k, max_size=k, unique_by=lambda x: x if x else object()))
        if allow_key and draw(st.booleans()):
            choice = draw(st.integers(0, k - 1))
        else:
            choice = None
            if None not in names:
                names[0] = None  # the default entry must exist
        arrays, npos = [], 0
        for nm in names:
            arrays.append({"name": nm, "shape": draw(_shape()), "dtype": draw(st.sampled_from(ARRAY_DTYPES)), "seed": draw(_seed())})
        if choice is not None:
            nm = names[choice]
            if nm is None:
                nm = "arr_%d" % sum(1 for x in names[:choice] if x is None)
            case["key"] = nm
        case["arrays"] = arrays
    elif cont == "hdf5":
        names = draw(st.lists(st.sampled_from(H5_DATASETS), min_size=1, max_size=5, unique=True))
        case["groups"] = draw(st.lists(st.sampled_from(H5_EMPTY_GROUPS), max_size=3, unique=True))
        case["arrays"] = [
            {"name": nm, "shape": draw(_shape()), "dtype": draw(st.sampled_from(ARRAY_DTYPES)), "seed": draw(_seed())}
            for nm in names
        ]
        if allow_key and draw(st.booleans()):
            case["key"] = draw(st.sampled_from(names))
    if cont in ("npy", "npz", "npzc", "hdf5", "raw") and draw(st.sampled_from([False, False, False, True])):
        # arrays stored in the non-native byte order (files written on another architecture)
        for a in case["arrays"]:
            dt = np.dtype(a["dtype"])
            if dt.itemsize > 1 and dt.byteorder in "=<|":
                a["dtype"] = dt.newbyteorder(">").str
        case["swapped"] = True
    if cont == "hdf5" and case.get("swapped"):
        # HDF5 converts on read with its own routines; for byte-swapped half floats they differ from a numpy
        # cast on a few values (library behaviour, not the reader's): such files are read without a cast
        allow_cast = False
    if allow_cast and cont != "raw" and draw(st.sampled_from([False, True, True])):
        if cont == "sph" and not case["arrays"][0]["coding"].startswith("pcm"):
            # expanded G.711 spans +-32124 (and a 1-byte dtype means raw codes, which is C12's subject)
            case["dtype"] = draw(st.sampled_from(WIDE_TARGETS))
        else:
            case["dtype"] = draw(st.sampled_from(CAST_TARGETS))
    case["first_dtype"] = draw(st.sampled_from([None, None, "float16", "uint16", "int8", "float32"]))
    return case


NEAR_MISS = {
    "npy": ["npy", ".np", ".npy.bak", ".npy~", ".numpy", "_npy"],
    "npz": ["npz", ".npz.tmp", ".np", ".zip"],
    "npzc": ["npz", ".npz.tmp", ".zip"],
    "pt": ["pt", ".pth", ".pt.bak", ".ptx", "_pt"],
    "hdf5": ["hdf5", ".h5", ".hdf", ".hdf5.tmp", ".hd5"],
    "sph": ["sph", ".sphere", ".wv1", ".sph.gz", ".sp"],
    "wav16": [".wave", ".wav.bak", ".wv", ".riff"],
    "wav32": [".wave", ".wav.bak", ".wav~"],
    "flac": [".fla", ".flac.part", ".flc"],
    "aiff": [".aif", ".aifc", ".aiff.bak"],
    "raw": [".raw", ".bin", ".dat", ""],
}
GENERAL_EXT = ["", ".txt", ".mp3", ".bin", ".dat", ".json", ".", ".tar", ".m4a", ".kaldi", ".ark"]


@st.composite
def _error_cases(draw):
    base = draw(_container_case(allow_cast=False, allow_key=False))
    kind = draw(st.sampled_from(["unknown_suffix", "unknown_suffix", "stream_no_force_as", "unknown_force_as"]))
    if base["container"] in ("flac", "aiff") and draw(st.booleans()):
        kind = "config_suffix"
    base["kind"] = kind
    if kind == "unknown_suffix":
        ext = draw(st.one_of(st.sampled_from(NEAR_MISS[base["container"]]), st.sampled_from(GENERAL_EXT)))
        base["name"] = draw(st.sampled_from(["utt", "a b", "x.y", "rec.01", "n"])) + ext
        base["exists"] = draw(st.sampled_from([True, True, True, False]))
    elif kind == "stream_no_force_as":
        base["stream"] = draw(st.sampled_from(["file", "bytesio"]))
        base["with_dtype"] = draw(st.booleans())
        base["with_key"] = draw(st.booleans()) and base["container"] in ("npz", "npzc")
    else:
        base["stream"] = draw(st.sampled_from(["path", "file", "bytesio"]))
        base["force_as"] = draw(
            st.one_of(
                st.sampled_from(["mp3", "numpy", "sphere", "h5", "torch", "text", "binary", "sound file", "wave", "hdf", "np", "pth", "nist", "raw", "auto", ".",
                                 ]),
                st.sampled_from(["", "", " "]),  # the empty string is not a type either (and is falsy)
                st.text(alphabet="abcdefghijklmnopqrstuvwxyz0123456789_-", min_size=1, max_size=8),
                st.sampled_from([".wav", ".npy", ".sph", "wav16", "npy2", "sph "]).filter(lambda s: s.strip().lower() not in VALID_FORCE_AS),
            )
        )
    return base


WDS_CONTAINERS = ("wav16", "wav32", "flac", "aiff", "sph", "npy", "npz", "npzc", "pt", "hdf5")
KEY_SUFFIXES = [".wav", ".flac", ".aiff", ".ogg", ".hdf5", ".npy", ".npz", ".pt", ".sph"]
ODD_KEYS = ["ark:x.npy", "scp,p:foo.scp", "cat x.ark |", "noext", "x.unknown", "", "flac", "wav", "ogg", ".", "a.b.c", "x.NPY", "x.txt"]
OPS = ["trunc", "chop", "flip", "byte", "noise", "zero", "dup", "drop", "ff"]
MAGICS = ["4e4953545f31410a2020203130323400", "52494646", "664c6143", "464f524d", "89484446", "934e554d5059", "504b0304", "8002", "4f676753", "4e4953545f3141"]


@st.composite
def _garbage_item(draw):
    pos = st.one_of(st.integers(0, 80), st.integers(0, 1 << 20))
    if draw(st.sampled_from([True, True, True, False])):
        cont = draw(st.sampled_from(WDS_CONTAINERS))
        base = {"container": cont, "variant": draw(st.integers(0, 3))}
        ops = draw(st.lists(st.tuples(st.sampled_from(OPS), pos, st.integers(0, 255)).map(list), min_size=0, max_size=4))
        item = {"base": base, "ops": ops, "seed": draw(_seed())}
        suffix = SUFFIX[cont] if draw(st.sampled_from([True, True, False])) else draw(st.sampled_from(KEY_SUFFIXES))
    else:
        item = {
            "base": None,
            "rand_len": draw(st.one_of(st.integers(0, 64), st.integers(0, 4096))),
            "prefix": draw(st.one_of(st.none(), st.sampled_from(MAGICS))),
            "ops": draw(st.lists(st.tuples(st.sampled_from(OPS), pos, st.integers(0, 255)).map(list), max_size=2)),
            "seed": draw(_seed()),
        }
        suffix = draw(st.sampled_from(KEY_SUFFIXES))
    if draw(st.integers(0, 9)) == 0:
        item["key"] = draw(st.sampled_from(ODD_KEYS))
    else:
        item["key"] = draw(st.sampled_from(["utt", "a/b/c", "x.y", "s p"])) + suffix
    return item


@st.composite
def _garbage_cases(draw, batch):
    # almost always a full batch (one fork per batch); the size shrinks to 1 for a minimal replay
    n = draw(st.sampled_from([1] + [batch] * 15))
    return {"items": [draw(_garbage_item()) for _ in range(n)]}


def _wds_valid_cases():
    return _container_case(containers=WDS_CONTAINERS, allow_cast=False, allow_key=False).flatmap(
        lambda c: st.sampled_from(["utt", "a/b/utt", "x.y.z", "s p"]).map(lambda k: dict(c, keystem=k))
    )


def clauses(tier):
    return [
        Clause(
            "roundtrip_audio", check_roundtrip,
            "wav16/wav32 (wave), flac/aiff (soundfile), SPHERE (own writer): read by name, open file and BytesIO "
            "(force_as = type and 'soundfile') with the same dtype; non-trivial = multi-channel or a dtype cast",
            lambda: _container_case(containers=AUDIO), quick=350, thorough=8000,
        ),
        Clause(
            "roundtrip_array", check_roundtrip,
            "npy, npz/npz-compressed (positional + named entries), pt, hdf5 (nested groups), raw: read by name, open "
            "file and BytesIO with the same key/dtype; non-trivial = multi-entry archive or a dtype cast",
            lambda: _container_case(containers=ARRAY + ("raw",)), quick=450, thorough=10000,
        ),
        Clause(
            "errors", check_errors,
            "valid content under a name with no recognised suffix => IOError; stream without force_as => ValueError; "
            "unknown force_as (path and stream) => ValueError",
            _error_cases, quick=400, thorough=6000, shards=8,
        ),
        Clause(
            "wds_valid", check_wds_valid,
            "wds_read_signal(key, bytes of a valid file) equals read_signal(path) and the stored default entry",
            _wds_valid_cases, quick=250, thorough=5000, shards=8,
        ),
        Clause(
            "wds_garbage", check_wds_garbage,
            "batches of 10 byte strings (random, magic-prefixed random, truncated/bit-flipped/spliced valid files) under "
            "every known suffix, each batch in a forked child; result must be ndarray or None, no exception, no crash; "
            "non-trivial = batch contains a mutated valid file",
            lambda: _garbage_cases(10), quick=220, thorough=6000, shrink_quick=True,
        ),
    ]
