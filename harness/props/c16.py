"""C16 - Standardize normalises with exactly the statistics it was given."""
import numpy as np
from hypothesis import strategies as st

from ..core import Clause, Discard, HarnessError, call, expect_raises, require
from ..oracles import post_ref

PROPERTY = "C16"
LEVEL = "exploration"
RULE = (
    "Generated histories: a data set of N feature vectors (per-coefficient location and scale drawn, samples a pure "
    "function of a PCG64 seed), an optional permutation, a partition into accumulate calls and, per call, a "
    "presentation (1-D vector, or 2..4-D tensor with the coefficient axis at a drawn position, positive or negative "
    "axis argument); then an application tensor/vector with its own axis.  Oracle = two-pass longdouble mean/variance "
    "of the whole data set (harness/oracles/post_ref.py)."
)
ASSUMPTIONS = [
    "per-coefficient population variance >= 1e-3 and |mean|/std <= 1e3 by construction (columns are standardised "
    "before location/scale are applied); the implementation's replacement of variances with isclose(var, 0) by 1 is "
    "outside the statement.  A single accumulated vector (variance 0) is only used with norm_var=False",
    "accumulate/apply are never given an empty array (they raise ValueError, which the statement does not cover)",
    "without statistics only tensors holding >= 2 feature vectors are applied (a lone vector raises or is zeroed, "
    "outside the statement)",
    "values against the oracle: |err| <= max(1e-11, 256 N eps (1 + mean^2/var)) * max(1, max|ref|); two histories of the same data: "
    "|a-b| <= max(1e-10, 32 N eps (1 + max mean^2/var)) * max(1, max|ref|); own-statistics moments: 1e-9",
    "with in_place=True only the returned value, dtype and shape are checked",
]

DTYPES = {"f64": np.float64, "f32": np.float32, "i32": np.int32, "i16": np.int16, "ld": np.longdouble, "f16": np.float16, "u16": np.uint16}
EPS = float(np.finfo(np.float64).eps)


# ------------------------------------------------------------------ data


def make_dataset(spec, n=None, seed=None):
    """(N, F) data set: column f has population mean ~ m_f * s_f and standard deviation ~ s_f."""
    F = len(spec["m"])
    N = int(spec["N"] if n is None else n)
    scales = [float(s) for s in spec["s"]]
    if len(scales) != F or N < 1 or F < 1:
        raise Discard()
    dt = np.dtype(DTYPES[spec["dtype"]])
    if dt.kind in "iu":
        scales = [max(2.0, s) for s in scales]
    rng = np.random.Generator(np.random.PCG64(int(spec["seed"] if seed is None else seed)))
    z = rng.standard_normal((N, F))
    if N >= 2:
        for f in range(F):
            col = z[:, f] - z[:, f].mean()
            sd = float(np.sqrt(np.mean(col * col)))
            if sd < 1e-6:
                col = np.array([1.0 if i % 2 == 0 else -1.0 for i in range(N)])
                col = col - col.mean()
                sd = float(np.sqrt(np.mean(col * col)))
            z[:, f] = col / sd
    data = np.empty((N, F))
    for f in range(F):
        if scales[f] == 0.0:
            # a coefficient that is the same in every vector, at a value without an exact binary representation
            base = (0.7, 0.3, -2.3, 1.1, 0.1, 1.0 / 3.0, 2.675, -0.7)[(int(spec["seed"] if seed is None else seed) + f) % 8]
            data[:, f] = base * (1.0 + abs(int(float(spec["m"][f]))) % 3)
            continue
        data[:, f] = float(spec["m"][f]) * scales[f] + scales[f] * z[:, f]
    if dt.kind in "iu":
        data = np.rint(data)
    if dt.kind == "u":
        data = data - min(0.0, float(data.min()))  # unsigned features: shifted to be non-negative
    return np.ascontiguousarray(data.astype(dt))


def _divisors(k):
    return [d for d in range(1, k + 1) if k % d == 0]


def present(chunk, p):
    """Present k vectors (k, F) as the argument of one accumulate/apply call.

    Returns (array, axis argument, tag).  ndim 1 is only possible for a single vector.
    """
    k, F = chunk.shape
    ndim = int(p.get("ndim", 2))
    neg = bool(p.get("neg", False))
    if k > 1 and ndim == 1:
        ndim = 2
    if ndim == 1:
        return np.ascontiguousarray(chunk[0]), (-1 if neg else 0), "vec"
    split = int(p.get("split", 0))
    other = []
    rest = k
    for _ in range(ndim - 2):
        divs = _divisors(rest)
        d = divs[split % len(divs)]
        split //= len(divs)
        other.append(d)
        rest //= d
    other.append(rest)
    rot = int(p.get("split", 0)) % len(other)
    other = other[rot:] + other[:rot]
    pos = int(p.get("pos", ndim - 1)) % ndim
    t = np.moveaxis(chunk.reshape(tuple(other) + (F,)), -1, pos)
    if p.get("fortran"):
        t = np.asfortranarray(t)
    else:
        t = np.ascontiguousarray(t)
    axis = pos - ndim if neg else pos
    return t, axis, "t%d@%d" % (ndim, axis)


def chunk_sizes(N, cuts):
    pts = sorted(set(int(c) for c in cuts if 0 < int(c) < N))
    pts = [0] + pts + [N]
    return [pts[i + 1] - pts[i] for i in range(len(pts) - 1)]


def run_history(std, data, hist):
    """Feed `data` to std.accumulate according to the history; returns the list of presentation tags."""
    N = data.shape[0]
    order = np.arange(N)
    if hist.get("perm") is not None:
        order = np.random.Generator(np.random.PCG64(int(hist["perm"]))).permutation(N)
    d = data[order]
    pres = hist.get("pres") or [{"ndim": 2}]
    tags = []
    start = 0
    for i, k in enumerate(chunk_sizes(N, hist.get("cuts", []))):
        arr, axis, tag = present(d[start : start + k], pres[i % len(pres)])
        start += k
        call("accumulate(%s, axis=%d)" % (arr.shape, axis), std.accumulate, arr, axis=axis)
        tags.append(tag)
        if hist.get("probe") and start < N:
            # an apply() between two accumulate calls (streaming use): the statistics "accumulated so far"
            # must still be the ones used by the final apply, whatever was derived from them earlier
            probe = np.asarray(d[: min(2, start)], dtype=np.float64)
            if probe.shape[0] == 1 or (i % 2 == 0):
                call("apply between accumulate calls", std.apply, probe[0].copy())
            else:
                call("apply between accumulate calls", std.apply, probe.copy(), axis=-1)
    return tags


def check_domain(data, norm_var):
    mean, var = post_ref.moments(data)
    if norm_var:
        if data.shape[0] < 2 or float(var.min()) < 1e-3:
            raise Discard()
        if float(np.max(np.abs(mean) / np.sqrt(var))) > 1e3:
            raise Discard()
    return mean, var


def make_apply_input(spec, app):
    """Application array: same location/scale family as the data set, own seed / dtype / shape."""
    F = len(spec["m"])
    other = [int(v) for v in app.get("other", [2])]
    k = int(np.prod(other)) if other else 1
    sp = dict(spec)
    sp["dtype"] = app.get("dtype", "f64")
    base = make_dataset(sp, n=max(k, 2), seed=app.get("seed", 0))[:k] if k else None
    if k < 1:
        raise Discard()
    if not other:
        x, axis, tag = present(base, {"ndim": 1, "neg": app.get("neg", False)})
    else:
        ndim = len(other) + 1
        pos = int(app.get("pos", ndim - 1)) % ndim
        x = np.moveaxis(base.reshape(tuple(other) + (F,)), -1, pos)
        x = np.asfortranarray(x) if app.get("fortran") else np.ascontiguousarray(x)
        axis = pos - ndim if app.get("neg") else pos
        tag = "t%d@%d" % (ndim, axis)
    return x, axis, tag


def compare(desc, got, ref, tol):
    err = np.abs(got.astype(post_ref.LD) - ref)
    worst = float(np.max(err)) if err.size else 0.0
    if not worst <= tol:
        idx = np.unravel_index(int(np.argmax(err)), err.shape)
        require(False, "{}: value at {} is {!r}, expected {!r} (|err| {:.3g} > {:.3g})",
                desc, tuple(int(i) for i in idx), float(got[idx]), float(ref[idx]), worst, tol)


def apply_checked(std, x, axis, in_place, what):
    x0 = x.copy()
    out = call("%s.apply(%s %s, axis=%d, in_place=%s)" % (what, x.dtype, x.shape, axis, in_place),
               std.apply, x, axis=axis, in_place=in_place)
    require(isinstance(out, np.ndarray), "apply returned {}", type(out).__name__)
    require(out.dtype == np.float64, "apply returned dtype {} (input {}), expected float64", out.dtype, x0.dtype)
    require(out.shape == x0.shape, "apply returned shape {} for input shape {}", out.shape, x0.shape)
    if not in_place:
        require(x.dtype == x0.dtype and np.array_equal(x, x0), "apply modified its input although in_place=False")
    return out, x0


# ------------------------------------------------------------------ strategies


def _pres():
    return st.fixed_dictionaries(
        {
            "ndim": st.sampled_from([1, 1, 2, 2, 3, 3, 4]),
            "pos": st.integers(0, 3),
            "neg": st.booleans(),
            "split": st.integers(0, 11),
            "fortran": st.sampled_from([False, False, True]),
        }
    )


@st.composite
def dataset_specs(draw, min_n=2, dtypes=("f64", "f64", "f32", "i16", "i32", "f64", "f32", "i16", "i32", "ld", "f16", "u16"), allow_const=False):
    F = draw(st.sampled_from([1, 2, 2, 3, 3, 4, 5, 6]))
    # location in units of the spread: mostly moderate, sometimes an offset hundreds of times the spread
    # (|mean|/std up to 1e3 keeps the float64 cancellation in E[x^2]-mean^2 far below the tolerance)
    mult = st.one_of(st.integers(-50, 50).map(float), st.floats(-50, 50, allow_nan=False), st.sampled_from([-50.0, -3.0, 0.0, 50.0]),
                     st.sampled_from([400.0, -700.0, 950.0, -950.0]))
    return {
        # mostly a handful of vectors; one data set in nine is corpus-sized (block-wise reductions only differ there)
        "N": draw(st.sampled_from([n for n in [1, 2, 2, 3, 4, 5, 6, 7, 8, 9, 10, 12] * 2 + [300, 2049, 2500, 5000] if n >= min_n])),
        "m": [draw(mult) for _ in range(F)],
        # spread per coefficient; 0 = constant coefficient (only where the variance is not used)
        "s": [draw(st.sampled_from([1.0, 1.0, 2.0, 5.0, 20.0, 3.7] + ([0.0, 0.0, 0.0] if allow_const else []))) for _ in range(F)],
        "dtype": draw(st.sampled_from(list(dtypes))),
        "seed": draw(st.integers(0, 2 ** 32 - 1)),
    }


@st.composite
def histories(draw, N):
    cuts = draw(st.lists(st.integers(1, max(1, N - 1)), unique=True, max_size=min(12, max(0, N - 1)))) if N > 1 else []
    if 1 < N <= 12 and draw(st.integers(0, 5)) == 0:
        cuts = list(range(1, N))  # one vector per call, like the shipped test
    n_calls = len(chunk_sizes(N, cuts))
    return {
        "perm": draw(st.one_of(st.none(), st.integers(0, 2 ** 16))),
        "cuts": sorted(cuts),
        "pres": [draw(_pres()) for _ in range(min(n_calls, 4))],
        "probe": draw(st.sampled_from([False, False, True])),
    }


@st.composite
def apply_specs(draw, min_vectors=1, allow_vec=True):
    nd = draw(st.sampled_from(([0] if allow_vec else []) + [1, 1, 2, 2, 3]))
    other = [draw(st.sampled_from([1, 2, 2, 3, 4])) for _ in range(nd)]
    if other and int(np.prod(other)) < min_vectors:
        other[0] = max(other[0], min_vectors)
    return {
        "other": other,
        "pos": draw(st.integers(0, 3)),
        "neg": draw(st.booleans()),
        "dtype": draw(st.sampled_from(["f64", "f64", "f32", "i16", "i32", "f64", "f32", "i16", "i32", "ld", "f16", "u16"])),
        "seed": draw(st.integers(0, 2 ** 32 - 1)),
        "in_place": draw(st.sampled_from([False, False, True])),
        "fortran": draw(st.sampled_from([False, False, True])),
    }


@st.composite
def values_cases(draw):
    norm_var = draw(st.sampled_from([True, True, False]))
    data = draw(dataset_specs(min_n=2 if norm_var else 1, allow_const=not norm_var))
    return {
        "data": data,
        "norm_var": norm_var,
        "hist": draw(histories(data["N"])),
        "apply": draw(apply_specs()),
        # "loaded statistics": the accumulated statistics are saved and the transform is applied by a new object built from the file
        "via": draw(st.sampled_from([None, None, None, "stats.npy", "stats.npz", "stats.bin", "stats", "stats.bin", "foreign.npy", "foreign_half.npy"])),
        "loads": draw(st.sampled_from([1, 1, 3])),
        "mmap": draw(st.sampled_from([None, "r", "r+", "c"])),
    }


@st.composite
def additive_cases(draw):
    norm_var = draw(st.sampled_from([True, True, False]))
    data = draw(dataset_specs(min_n=2))
    return {
        "data": data,
        "norm_var": norm_var,
        "hist_a": draw(histories(data["N"])),
        "hist_b": draw(histories(data["N"])),
        "apply": draw(apply_specs()),
    }


@st.composite
def own_cases(draw):
    data = draw(dataset_specs(min_n=2))
    other_nd = draw(st.sampled_from([1, 1, 2, 3]))
    return {
        "data": data,
        "norm_var": draw(st.sampled_from([True, True, False])),
        "pres": {
            "ndim": other_nd + 1,
            "pos": draw(st.integers(0, 3)),
            "neg": draw(st.booleans()),
            "split": draw(st.integers(0, 11)),
            "fortran": draw(st.booleans()),
        },
        "in_place": draw(st.sampled_from([False, False, True])),
        "lone": draw(st.sampled_from([False] * 7 + [True])),
    }


@st.composite
def mismatch_cases(draw):
    data = draw(dataset_specs(min_n=2))
    F = len(data["m"])
    wrong = draw(st.sampled_from([w for w in [1, 1, F - 1, F + 1, 2 * F, F + 3] if w >= 1 and w != F]))
    return {
        "data": data,
        "norm_var": draw(st.booleans()),
        "hist": draw(histories(data["N"])),
        "wrong_F": wrong,
        "pres": draw(_pres()),
        "k": draw(st.sampled_from([1, 1, 1, 2, 3, 4, 6])),
        "seed": draw(st.integers(0, 2 ** 16)),
        "then_apply": draw(apply_specs()),
    }


# ------------------------------------------------------------------ checks


def _labels(spec, tags, mean, norm_var, app_tag=None, in_place=False):
    labs = ["dtype=" + spec["dtype"], "norm_var" if norm_var else "mean_only", "calls=%s" % min(len(tags), 5)]
    kinds = set(t.split("@")[0] for t in tags)
    labs += sorted("acc:" + k for k in kinds)
    if any(t != "vec" and int(t.split("@")[1]) < 0 for t in tags):
        labs.append("acc:axis<0")
    if float(mean.min()) < 0:
        labs.append("neg-mean")
    if float(mean.max()) < 0:
        labs.append("all-neg-means")
    if spec["N"] == 1:
        labs.append("N=1")
    if app_tag:
        labs.append("apply:" + app_tag.split("@")[0])
        if app_tag != "vec" and int(app_tag.split("@")[1]) < 0:
            labs.append("apply:axis<0")
    if in_place:
        labs.append("in_place")
    return labs


def _fresh(norm_var):
    from pydrobert.speech.post import Standardize

    s = call("Standardize(norm_var=%s)" % norm_var, Standardize, norm_var=norm_var)
    require(not s.have_stats, "a fresh Standardize reports have_stats")
    return s


def _vtol(data, mean, var, norm_var):
    """Relative tolerance of a float64 computation of the moments: the variance E[x^2] - mean^2 loses
    mean^2/var of its precision, so a few hundred ulps times that condition number -- far below what a
    single-precision accumulation (1e-7) would produce on well-conditioned data."""
    kappa = 1.0 + (float(np.max(mean * mean / var)) if norm_var else 0.0)
    return max(1e-11, min(256 * data.shape[0], 4096) * EPS * kappa)


def check_values(case):
    spec, norm_var = case["data"], bool(case["norm_var"])
    data = make_dataset(spec)
    mean, var = check_domain(data, norm_var)
    s = _fresh(norm_var)
    tags = run_history(s, data, case["hist"])
    require(bool(s.have_stats), "have_stats is false after {} accumulate calls", len(tags))
    via = case.get("via")
    if via:
        import os
        import tempfile

        from pydrobert.speech.post import Standardize

        with tempfile.TemporaryDirectory(prefix="verif_c16_") as td:
            path = os.path.join(td, via)
            if via.startswith("foreign"):
                # statistics written by ANOTHER program in the layout the class documents by reference (Kaldi's CMVN
                # statistics, [povey2011]): row 0 = sums and the count, row 1 = sums of squares and an unused 0.
                # "foreign.npy" holds all vectors; "foreign_half.npy" the first half, the rest is accumulated after loading.
                h = data.shape[0] if via == "foreign.npy" else max(1, data.shape[0] // 2)
                d64 = data[:h].astype(np.float64)
                stats = np.zeros((2, data.shape[1] + 1))
                stats[0, :-1], stats[0, -1], stats[1, :-1] = d64.sum(axis=0), h, (d64 * d64).sum(axis=0)
                np.save(path, stats)
            else:
                call("save(%s)" % via, s.save, path)
            kw = {} if via.endswith((".npy", ".npz")) else {"force_as": "file"}
            if case.get("loads", 1) >= 3 and not via.startswith("foreign"):
                # the same unchanged file is loaded three times (one object per speaker, all starting from global statistics):
                # what the second object accumulates afterwards is its own business
                first = call("Standardize(rfilename) (first load)", Standardize, path, norm_var=norm_var, **kw)
                second = call("Standardize(rfilename) (second load)", Standardize, path, norm_var=norm_var, **kw)
                call("accumulate into the second loaded object", second.accumulate, data.astype(np.float64) * 2.0 + 5.0, axis=-1)
                del first
            before_bytes = None
            if via.startswith("foreign") and case.get("mmap"):
                # documented pass-through of keyword arguments to the reader: the .npy file is memory-mapped while loading;
                # what is accumulated afterwards must work and must stay in the object, not in the file
                kw = dict(kw, mmap_mode=case["mmap"])
                with open(path, "rb") as fh:
                    before_bytes = fh.read()
            s = call("Standardize(rfilename=%r%s)" % (via, "".join(", %s=%r" % kv for kv in sorted(kw.items()))), Standardize, path, norm_var=norm_var, **kw)
            if via.startswith("foreign") and h < data.shape[0]:
                call("accumulate after loading", s.accumulate, data[h:], axis=-1)
            if before_bytes is not None:
                with open(path, "rb") as fh:
                    require(fh.read() == before_bytes, "accumulate after Standardize(rfilename, mmap_mode={!r}) rewrote the statistics file", case["mmap"])
        require(bool(s.have_stats), "have_stats is false after loading statistics from {}", via)
    app = case["apply"]
    x, axis, atag = make_apply_input(spec, app)
    in_place = bool(app.get("in_place", False))
    out, x0 = apply_checked(s, x, axis, in_place, "Standardize")
    ref = post_ref.standardize_ref(x0, mean, var, axis if x0.ndim > 1 else 0, norm_var)
    tol = _vtol(data, mean, var, norm_var) * max(1.0, float(np.max(np.abs(ref))))
    compare("apply vs (x - mean)/std of the %d accumulated vectors (calls: %s)" % (data.shape[0], ",".join(tags)),
            out, ref, tol)
    # statistics are not consumed: a second apply gives the same answer
    out2, _ = apply_checked(s, x0.copy(), axis, False, "Standardize (2nd)")
    compare("second apply with the same statistics", out2, ref, tol)
    nontrivial = len(set(tags)) >= 2 and float(mean.min()) < 0
    labels = _labels(spec, tags, mean, norm_var, atag, in_place)
    labels.append("statistics written by another program" if via and via.startswith("foreign") else
                  "statistics loaded from ." + via.rsplit(".", 1)[-1] if via and "." in via else ("statistics loaded from a raw file" if via else "statistics accumulated"))
    if any(float(v) == 0.0 for v in spec["s"]) and not spec["dtype"][0] in "iu":
        labels.append("constant coefficient")
    return {"nontrivial": nontrivial, "labels": labels}


def check_additive(case):
    spec, norm_var = case["data"], bool(case["norm_var"])
    data = make_dataset(spec)
    mean, var = check_domain(data, norm_var)
    sa, sb = _fresh(norm_var), _fresh(norm_var)
    tags_a = run_history(sa, data, case["hist_a"])
    tags_b = run_history(sb, data, case["hist_b"])
    app = dict(case["apply"])
    app["in_place"] = False
    x, axis, atag = make_apply_input(spec, app)
    oa, x0 = apply_checked(sa, x, axis, False, "A")
    ob, _ = apply_checked(sb, x0.copy(), axis, False, "B")
    ref = post_ref.standardize_ref(x0, mean, var, axis if x0.ndim > 1 else 0, norm_var)
    mx = max(1.0, float(np.max(np.abs(ref))))
    kappa = 1.0 + (float(np.max(mean * mean / var)) if norm_var else 0.0)
    tol = max(1e-10, 32 * data.shape[0] * EPS * kappa) * mx
    compare("history A (%s) vs history B (%s) of the same %d vectors" % (",".join(tags_a), ",".join(tags_b), data.shape[0]),
            oa, ob.astype(post_ref.LD), tol)
    compare("history A vs oracle", oa, ref, _vtol(data, mean, var, norm_var) * mx)
    same_hist = (
        case["hist_a"].get("perm") == case["hist_b"].get("perm")
        and chunk_sizes(spec["N"], case["hist_a"]["cuts"]) == chunk_sizes(spec["N"], case["hist_b"]["cuts"])
        and tags_a == tags_b
    )
    labs = _labels(spec, tags_a + tags_b, mean, norm_var, atag)
    if case["hist_a"].get("perm") != case["hist_b"].get("perm"):
        labs.append("different-order")
    if sorted(tags_a) != sorted(tags_b):
        labs.append("different-presentation")
    if ("vec" in tags_a) != ("vec" in tags_b):
        labs.append("vector-vs-tensor")
    return {"nontrivial": (not same_hist) and float(mean.min()) < 0, "labels": labs}


def check_own(case):
    spec, norm_var = case["data"], bool(case["norm_var"])
    data = make_dataset(spec)
    if case.get("lone") and not norm_var:
        # a tensor holding a single feature vector, no statistics, mean only: its own mean is itself, so the
        # result is zero -- and, like every result, float64
        p = dict(case["pres"])
        p["ndim"] = max(2, int(p.get("ndim", 2)))
        x, axis, tag = present(data[:1], p)
        s = _fresh(False)
        out, x0 = apply_checked(s, x, axis, False, "Standardize (no statistics, single vector)")
        require(out.dtype == np.float64, "result dtype {} (input {}), must be float64", out.dtype, x0.dtype)
        require(out.shape == x0.shape and bool(np.all(out == 0)), "single vector minus its own mean is not zero: {}", out.ravel()[:4].tolist())
        return {"nontrivial": False, "labels": ["lone-vector", "dtype=" + spec["dtype"]]}
    if data.shape[0] < 2:
        raise Discard()
    mean, var = check_domain(data, True)  # the variance constraint applies either way: >= 2 distinct vectors
    p = dict(case["pres"])
    p["ndim"] = max(2, int(p.get("ndim", 2)))
    x, axis, tag = present(data, p)
    s = _fresh(norm_var)
    in_place = bool(case.get("in_place", False))
    out, x0 = apply_checked(s, x, axis, in_place, "Standardize (no statistics)")
    require(not s.have_stats, "apply without statistics made have_stats true")
    # moments of the result over the other axes
    vecs = post_ref.tensor_vectors(out, axis)
    m2, v2 = post_ref.moments(vecs)
    sc = np.array([max(2.0, float(v)) if spec["dtype"][0] in "iu" else float(v) for v in spec["s"]], dtype=post_ref.LD)
    unit = np.ones_like(sc) if norm_var else sc
    worst = float(np.max(np.abs(m2) / unit))
    require(worst <= 1e-9, "result has per-coefficient mean {} (should be 0; relative to scale: {:.3g})",
            [float(v) for v in m2], worst)
    if norm_var:
        worst = float(np.max(np.abs(v2 - 1)))
        require(worst <= max(1e-9, _vtol(data, mean, var, True)), "result has per-coefficient variance {} (should be 1)", [float(v) for v in v2])
    ref = post_ref.standardize_ref(x0, mean, var, axis, norm_var)
    compare("apply without statistics vs (x - own mean)/own std", out, ref, 1e-7 * max(1.0, float(np.max(np.abs(ref)))))
    labs = ["dtype=" + spec["dtype"], "norm_var" if norm_var else "mean_only", "ndim=%d" % x0.ndim, "vectors=%s" % min(data.shape[0], 6)]
    if axis < 0:
        labs.append("axis<0")
    if float(mean.min()) < 0:
        labs.append("neg-mean")
    if in_place:
        labs.append("in_place")
    if in_place and x0.dtype == np.float64:
        labs.append("in_place-f64")
    return {"nontrivial": x0.ndim >= 3 or axis < 0, "labels": labs}


def check_mismatch(case):
    spec, norm_var = case["data"], bool(case["norm_var"])
    data = make_dataset(spec)
    mean, var = check_domain(data, norm_var)
    F, W = data.shape[1], int(case["wrong_F"])
    if W == F or W < 1:
        raise Discard()
    s = _fresh(norm_var)
    tags = run_history(s, data, case["hist"])
    wspec = {"N": int(case["k"]), "m": [0.0] * W, "s": [1.0] * W, "dtype": spec["dtype"], "seed": case["seed"]}
    wrong = make_dataset(wspec, n=max(2, int(case["k"])))[: int(case["k"])]
    arr, axis, tag = present(wrong, case["pres"])
    expect_raises("accumulate of %s (axis=%d) after vectors of length %d" % (arr.shape, axis, F),
                  ValueError, s.accumulate, arr, axis=axis)
    expect_raises("apply to %s (axis=%d) with statistics of length %d" % (arr.shape, axis, F),
                  ValueError, s.apply, arr, axis=axis)
    # the rejected calls must not have changed the transform
    app = dict(case["then_apply"])
    app["in_place"] = False
    x, ax, atag = make_apply_input(spec, app)
    out, x0 = apply_checked(s, x, ax, False, "Standardize (after rejected calls)")
    ref = post_ref.standardize_ref(x0, mean, var, ax if x0.ndim > 1 else 0, norm_var)
    compare("apply after a rejected accumulate", out, ref, _vtol(data, mean, var, norm_var) * max(1.0, float(np.max(np.abs(ref)))))
    labs = ["wrong:" + tag.split("@")[0], "wrong_F<F" if W < F else "wrong_F>F", "dtype=" + spec["dtype"]]
    if W == 1:
        labs.append("wrong_F=1")
    if tag != "vec" and axis < 0:
        labs.append("axis<0")
    return {"nontrivial": True, "labels": labs}


def clauses(tier):
    post_ref.ensure_self_test()
    return [
        Clause(
            "apply_values", check_values,
            "non-trivial = >= 2 accumulate calls with different presentations (vector vs tensor, ndim, axis) and "
            "at least one coefficient with a negative mean",
            values_cases, quick=1200, thorough=36000,
        ),
        Clause(
            "additive", check_additive,
            "two independent histories (order, partition, presentations) of one data set; non-trivial = the "
            "histories differ and a coefficient has a negative mean",
            additive_cases, quick=600, thorough=24000,
        ),
        Clause(
            "own_statistics", check_own,
            "no statistics, tensor with >= 2 vectors; non-trivial = ndim >= 3 or negative axis",
            own_cases, quick=600, thorough=18000,
        ),
        Clause(
            "dim_mismatch", check_mismatch,
            "accumulate and apply with a wrong coefficient count must raise ValueError and leave the transform intact",
            mismatch_cases, quick=250, thorough=12000,
        ),
    ]
