"""C12 - uncompressed NIST SPHERE audio decodes exactly.

Files are produced by our own writer (harness/oracles/sphere_writer.py); the expected samples
are the ones we wrote, mu-/A-law expanded by our own ITU-T G.711 segment decoder
(harness/oracles/g711.py).  Nothing of the expected value comes from the code under test.
"""
import io
import os
import tempfile
import warnings

import numpy as np
from hypothesis import strategies as st

from ..core import Clause, Discard, HarnessError, Violation, call, expect_raises, require
from ..oracles import g711
from ..oracles import sphere_writer as sw

PROPERTY = "C12"
LEVEL = "exploration"
RULE = (
    "Generated SPHERE files (coding x channels x sample count x header layout x requested dtype x access "
    "path); oracle = the samples we wrote, G.711 codes expanded by an independent segment-formula decoder. "
    "Non-trivial = data section longer than one 16384-byte read with a frame size that does not divide "
    "16384, or a truncated data section; distinct by the full case."
)
ASSUMPTIONS = [
    "sample_count >= 1, sample_rate > 0, channel_count 1..8 (a header announcing zero samples is not generated)",
    "sample_coding is written as 'pcm', 'ulaw' or 'alaw' with sample_n_bytes always present; sample_byte_format always present for PCM and left out of a third of the mu-law / A-law headers (NIST requires it only when sample_n_bytes > 1)",
    "header padding after end_head is blanks, newlines or NUL bytes (nothing after end_head is part of the header); optional fields are -i/-r/-sN fields with unique names, no comment lines",
    "a requested dtype on PCM data means stored.astype(dtype); on G.711 data a 1-byte dtype means the raw codes, "
    "any wider dtype means expanded.astype(dtype)",
    "truncated data section: exactly the complete frames present are expected (a dangling partial frame is dropped), "
    "plus at least one warning; no claim is made about files that are longer than the header promises",
    "random PCM payloads starting with the shorten magic 'ajkg' are not generated",
]

READ = 16384
DTYPES = [None, "int16", "int32", "float64", "uint8", "int8"]
ACCESS = ["path", "path_forced", "bytesio", "file", "tmpfile", "unnamed", "barename", "gzip"]
RATES = [8000, 16000, 20000, 44100, 1]

_selftested = []


def _self_test():
    if _selftested:
        return
    try:
        g711.self_test()
        sw.self_test()
    except AssertionError as e:  # noqa
        raise HarnessError("oracle self-test failed: %r" % (e,))
    _selftested.append(True)


# ------------------------------------------------------------------------------ builders


def make_frames(coding, n, c, kind, seed):
    """(n, c) int16 samples (pcm) or uint8 codes (g711), a pure function of the arguments."""
    rng = np.random.Generator(np.random.PCG64(seed))
    pcm = coding.startswith("pcm")
    if kind == "ramp":
        idx = np.arange(n * c, dtype=np.int64).reshape(n, c) + int(rng.integers(0, 65536))
        if pcm:
            return ((idx * 257) % 65536 - 32768).astype(np.int16)
        return (idx % 256).astype(np.uint8)
    if kind == "extreme":
        if pcm:
            pool = np.array([-32768, 32767, -1, 0, 1, 255, 256, -256, 0x7F80, -128, 0x0080], dtype=np.int16)
        else:
            pool = np.array([0, 255, 127, 128, 0x55, 0xD5, 0x2A, 0xAA, 1, 254], dtype=np.uint8)
        return pool[rng.integers(0, len(pool), size=(n, c))]
    if kind != "noise":
        raise HarnessError("unknown kind %r" % (kind,))
    if pcm:
        fr = rng.integers(-32768, 32768, size=(n, c)).astype(np.int16)
    else:
        fr = rng.integers(0, 256, size=(n, c)).astype(np.uint8)
    return fr


def expected_array(coding, frames, dtype):
    """What read_signal must return for the (possibly shortened) frame matrix."""
    if coding.startswith("pcm"):
        out = frames if dtype is None else frames.astype(dtype)
    else:
        if dtype is not None and np.dtype(dtype).itemsize == 1:
            out = frames.astype(dtype)  # raw codes
        else:
            out = g711.expand(frames, coding)
            if dtype is not None:
                out = out.astype(dtype)
    if frames.shape[1] == 1:
        out = out[:, 0]
    return out


def file_bytes(case):
    frames = make_frames(case["coding"], case["n"], case["channels"], case["kind"], case["seed"])
    h = case["hdr"]
    data = sw.write_sphere(
        frames, case["coding"], case["rate"], h["k"], h["layout"], h["extras"], long_extra=h.get("long", 0),
        omit_byte_format=h.get("no_byte_format", False),
        pad={"nul": b"\0", "newline": b"\n"}.get(h.get("pad"), b" "),
    )
    hdr_size = len(data) - frames.size * (2 if case["coding"].startswith("pcm") else 1)
    if case["coding"].startswith("pcm") and data[hdr_size : hdr_size + 4] == b"ajkg":
        raise Discard()
    return frames, data, hdr_size


def read_with(access, data, dtype, stem="utt"):
    """Run read_signal on the bytes through the requested access path; returns (array, warnings)."""
    from pydrobert.speech.util import read_signal

    np_dtype = None if dtype is None else np.dtype(dtype)
    with warnings.catch_warnings(record=True) as wlist:
        warnings.simplefilter("always")
        if access == "bytesio":
            out = read_signal(io.BytesIO(data), dtype=np_dtype, force_as="sph")
        elif access == "tmpfile":
            # an anonymous temporary file: an open binary stream whose .name is a file descriptor number
            with tempfile.TemporaryFile() as f:
                f.write(data)
                f.seek(0)
                out = read_signal(f, dtype=np_dtype, force_as="sph")
        elif access == "unnamed":
            # a raw stream object without any .name attribute
            class _Stream(io.RawIOBase):
                def __init__(self, b):
                    self._b = io.BytesIO(b)

                def readable(self):
                    return True

                def readinto(self, buf):
                    chunk = self._b.read(len(buf))
                    buf[: len(chunk)] = chunk
                    return len(chunk)

            out = read_signal(io.BufferedReader(_Stream(data)), dtype=np_dtype, force_as="sph")
        else:
            with tempfile.TemporaryDirectory(prefix="verif_c12_") as td:
                name = stem + (".wv1" if access == "path_forced" else ".sph")
                path = os.path.join(td, name)
                with open(path, "wb") as f:
                    f.write(data)
                if access == "path":
                    out = read_signal(path, dtype=np_dtype)
                elif access == "path_forced":
                    out = read_signal(path, dtype=np_dtype, force_as="sph")
                elif access == "file":
                    with open(path, "rb") as f:
                        out = read_signal(f, dtype=np_dtype, force_as="sph")
                elif access == "gzip":
                    # a decompressing stream (a corpus kept as .sph.gz): it has a fileno(), but that descriptor is the
                    # COMPRESSED file - only read() yields the SPHERE bytes
                    import gzip

                    with gzip.open(path + ".gz", "wb") as g:
                        g.write(data)
                    with gzip.open(path + ".gz", "rb") as g:
                        out = read_signal(g, dtype=np_dtype, force_as="sph")
                elif access == "barename":
                    # the file name alone, relative to the current directory
                    old = os.getcwd()
                    os.chdir(td)
                    try:
                        out = read_signal(name, dtype=np_dtype)
                    finally:
                        os.chdir(old)
                else:
                    raise HarnessError("unknown access %r" % (access,))
    return out, list(wlist)


def compare(out, exp, what):
    require(isinstance(out, np.ndarray), "{}: returned {} instead of an ndarray", what, type(out).__name__)
    require(
        out.shape == exp.shape,
        "{}: shape {} returned, {} stored", what, tuple(out.shape), tuple(exp.shape),
    )
    require(out.dtype == exp.dtype, "{}: dtype {} returned, {} expected", what, out.dtype, exp.dtype)
    if not np.array_equal(out, exp):
        bad = np.argwhere(out != exp)
        first = tuple(int(i) for i in bad[0])
        raise Violation(
            "%s: %d of %d values differ, first at index %s: got %r, stored %r"
            % (what, len(bad), exp.size, first, out[first].item(), exp[first].item())
        )


def _frame_labels(case, data_bytes):
    fb = sw.frame_bytes(case["coding"], case["channels"])
    multi = data_bytes > READ
    nondiv = READ % fb != 0
    labels = [
        "coding=" + case["coding"],
        "ch=%d" % case["channels"],
        "dtype=%s" % case["dtype"],
        "access=" + case["access"],
        "hdr=%dk" % case["hdr"]["k"],
        "reads=%d" % min(4, -(-data_bytes // READ)),
    ]
    if case["hdr"].get("long", 0):
        labels.append("hdr-long-field")
    if case["hdr"].get("pad", "blank") != "blank":
        labels.append("hdr-pad=" + case["hdr"]["pad"])
    if case["hdr"].get("no_byte_format") and not case["coding"].startswith("pcm"):
        labels.append("hdr-without-byte-format")
    if nondiv:
        labels.append("nondividing")
    if multi and nondiv:
        labels.append("multiread+nondividing")
    n_near = [READ * j // fb + d for j in (1, 2, 3) for d in (-1, 0, 1)]
    if case["n"] in n_near:
        labels.append("n-near-read-boundary")
    return labels, (multi and nondiv)


# ------------------------------------------------------------------------------ clause: round trip


def check_roundtrip(case):
    _self_test()
    frames, data, hdr_size = file_bytes(case)
    exp = expected_array(case["coding"], frames, case["dtype"])
    what = "%s %dch n=%d dtype=%s via %s" % (case["coding"], case["channels"], case["n"], case["dtype"], case["access"])
    out, _ = call(what, read_with, case["access"], data, case["dtype"], case.get("stem", "utt"))
    compare(out, exp, what)
    labels, nontrivial = _frame_labels(case, len(data) - hdr_size)
    return {"nontrivial": nontrivial, "labels": labels}


# ------------------------------------------------------------------------------ clause: truncated


def check_truncated(case):
    _self_test()
    frames, data, hdr_size = file_bytes(case)
    total = len(data) - hdr_size
    keep = case["keep"]
    if not (0 <= keep < total):
        raise Discard()
    fb = sw.frame_bytes(case["coding"], case["channels"])
    complete = keep // fb
    exp = expected_array(case["coding"], frames[:complete], case["dtype"])
    what = "truncated %s %dch n=%d keep=%d/%d bytes dtype=%s via %s" % (
        case["coding"], case["channels"], case["n"], keep, total, case["dtype"], case["access"],
    )
    out, wlist = call(what, read_with, case["access"], data[: hdr_size + keep], case["dtype"], case.get("stem", "utt"))
    require(len(wlist) >= 1, "{}: no warning was issued for a short data section", what)
    compare(out, exp, what)
    labels, _ = _frame_labels(case, keep)
    labels.append("midframe-cut" if keep % fb else "frame-aligned-cut")
    labels.append("mono" if case["channels"] == 1 else "multichannel")
    if keep == 0:
        labels.append("no-data-at-all")
    return {"nontrivial": True, "labels": labels}


# ------------------------------------------------------------------------------ clause: G.711 tables


def check_g711_code(case):
    _self_test()
    law, code, c = case["law"], case["code"], case["channels"]
    # every channel position carries the code once, surrounded by other codes
    base = np.array([code, code ^ 0xFF, code, (code + 1) & 0xFF, code], dtype=np.uint8)
    frames = np.stack([np.roll(base, k) for k in range(c)], axis=1)
    data = sw.write_sphere(frames, law, 8000, 1, code, 2)
    for dtype in (None, "int32", "uint8"):
        what = "%s code 0x%02x (%d ch) dtype=%s" % (law, code, c, dtype)
        out, _ = call(what, read_with, "bytesio", data, dtype)
        compare(out, expected_array(law, frames, dtype), what)
    return {"nontrivial": True, "labels": ["law=" + law, "ch=%d" % c]}


def _enum_codes(tier):
    for law in ("ulaw", "alaw"):
        for code in range(256):
            yield {"law": law, "code": code, "channels": 1 + (code % 2)}


# ------------------------------------------------------------------------------ clause: bad header


def check_bad_header(case):
    _self_test()
    frames = make_frames(case["coding"], case["n"], case["channels"], "noise", case["seed"])
    data = bytearray(sw.write_sphere(frames, case["coding"], 16000, case["k"], case["seed"], 3))
    kind = case["kind"]
    if kind == "magic_byte":
        pos = case["pos"] % 7
        x = case["xor"] % 256
        if x == 0:
            raise Discard()
        data[pos] ^= x
    elif kind == "magic_word":
        word = case["word"].encode("ascii")
        if len(word) != 7 or word == b"NIST_1A":
            raise Discard()
        data[:7] = word
    elif kind == "short":
        cut = case["length"]
        if not (0 <= cut < 1024):
            raise Discard()
        del data[cut:]
    elif kind == "declared":
        size = case["size"]
        if size >= 1024:
            raise Discard()
        txt = ("%7d\n" % size).encode("ascii")
        if len(txt) != 8:
            raise Discard()
        data[8:16] = txt
    else:
        raise HarnessError("unknown kind %r" % (kind,))
    what = "bad header (%s) via %s" % (kind, case["access"])
    expect_raises(what, IOError, read_with, case["access"], bytes(data), None)
    return {"nontrivial": True, "labels": ["kind=" + kind, "access=" + case["access"]]}


# ------------------------------------------------------------------------------ strategies


def _hdr():
    return st.fixed_dictionaries(
        {
            "k": st.sampled_from([1, 1, 2, 3]),
            "layout": st.integers(0, 2 ** 31 - 1),
            "extras": st.integers(0, 10),
            "long": st.sampled_from([0, 0, 0, 700, 1500]),
            # 1-byte codings may leave out sample_byte_format (required only when sample_n_bytes > 1)
            "no_byte_format": st.sampled_from([False, False, True]),
            # what fills the header block after end_head: blanks (NIST tools), newlines, or NUL bytes (other writers)
            "pad": st.sampled_from(["blank", "blank", "newline", "nul"]),
        }
    )


@st.composite
def _file_cases(draw, truncated=False):
    coding = draw(st.sampled_from(sw.CODINGS))
    c = draw(st.sampled_from([1, 1, 1, 2, 3, 4, 5, 6, 7, 8] if truncated else [1, 2, 3, 3, 4, 5, 5, 6, 6, 7, 7, 8] * 3 + [17, 64, 17, 64, 8193, 16400]))
    fb = sw.frame_bytes(coding, c)
    mode = draw(st.sampled_from(["small", "any", "near", "near", "near", "near"] * 6 + ["huge"]))
    if mode == "huge":
        # a recording of more than 2 MiB: beyond any plausible read-ahead size (2**16 ... 2**20 bytes), one frame more or less
        n = (2 ** 21 + 2 ** 19) // fb + draw(st.sampled_from([-1, 0, 1, 1000]))
    elif mode == "near":
        n = READ * draw(st.sampled_from([1, 2, 2, 3])) // fb + draw(st.sampled_from([-1, 0, 1]))
    elif mode == "small":
        n = draw(st.integers(1, 64))
    else:
        n = draw(st.integers(1, 3 * READ // fb + 40))
    n = max(1, n)
    case = {
        "coding": coding,
        "channels": c,
        "n": n,
        "kind": draw(st.sampled_from(["noise", "noise", "ramp", "extreme"])),
        "seed": draw(st.integers(0, 2 ** 32 - 1)),
        "rate": draw(st.sampled_from(RATES)),
        "hdr": draw(_hdr()),
        "dtype": draw(st.sampled_from(DTYPES + [None, None])),
        "access": draw(st.sampled_from(ACCESS)),
        "stem": draw(st.sampled_from(["utt", "a b", "x.y.z", "s1.wav"])),
    }
    if truncated:
        total = n * fb
        tmode = draw(st.sampled_from(["zero", "tail", "tail", "any", "read"]))
        if tmode == "tail":
            keep = total - draw(st.integers(1, min(total, 3 * fb)))
        elif tmode == "read":
            keep = READ * draw(st.integers(1, 3)) + draw(st.integers(-fb, fb))
        elif tmode == "zero":
            keep = draw(st.integers(0, min(total - 1, fb)))
        else:
            keep = draw(st.integers(0, total - 1))
        case["keep"] = min(max(keep, 0), total - 1)
    return case


def _bad_header_cases():
    common = {
        "coding": st.sampled_from(sw.CODINGS),
        "channels": st.integers(1, 3),
        "n": st.integers(1, 40),
        "seed": st.integers(0, 2 ** 31 - 1),
        "k": st.sampled_from([1, 1, 2]),
        "access": st.sampled_from(["path", "bytesio", "file", "tmpfile", "unnamed"]),
    }
    return st.one_of(
        st.fixed_dictionaries(dict(common, kind=st.just("magic_byte"), pos=st.integers(0, 6), xor=st.one_of(st.integers(1, 255), st.sampled_from([1, 32, 128])))),
        st.fixed_dictionaries(
            dict(
                common,
                kind=st.just("magic_word"),
                word=st.sampled_from(["NIST_1B", "nist_1a", "NIST_2A", "RIFF\x24\x08\x00", "NIST 1A", "NIST_1\n", "NISX_1A", "\x00IST_1A", "       "]),
            )
        ),
        st.fixed_dictionaries(dict(common, kind=st.just("short"), length=st.one_of(st.integers(0, 1023), st.sampled_from([0, 7, 8, 16, 1023])))),
        st.fixed_dictionaries(dict(common, kind=st.just("declared"), size=st.one_of(st.integers(0, 1023), st.sampled_from([0, 1, 512, 1000, 1023]), st.integers(-4096, -1)))),
    )


def clauses(tier):
    return [
        Clause(
            "roundtrip", check_roundtrip,
            "well-formed file read back; non-trivial = data section > 16384 bytes and frame size does not divide 16384",
            lambda: _file_cases(False), quick=2200, thorough=48000,
        ),
        Clause(
            "truncated", check_truncated,
            "data section cut at a drawn byte (tail, read boundary, anywhere, almost nothing); every case is non-trivial",
            lambda: _file_cases(True), quick=1400, thorough=32000,
         fuzz_runs=2500),
        Clause(
            "g711_tables", check_g711_code,
            "all 256 codes of each law, decoded with dtype None / int32 / uint8 (raw)",
            None, enumerate=_enum_codes, enum_name="g711_codes_x_laws", shards=1,
        ),
        Clause(
            "bad_header", check_bad_header,
            "wrong magic (byte flips in the first 7 bytes, look-alike words), file shorter than 1024 bytes, declared header size < 1024",
            _bad_header_cases, quick=800, thorough=12000, shards=4,
        ),
    ]
