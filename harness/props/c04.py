"""C04 - a computer's output depends only on the current utterance (model-based histories)."""
import numpy as np
from hypothesis import strategies as st

from ..core import Clause, Discard, Violation, call, expect_raises, require
from ..strategies import (build_bank, build_computer, gabor_degenerate, gammatone_degenerate, make_signal,
                          si_specs, stft_specs)

PROPERTY = "C04"
LEVEL = "exploration"
RULE = (
    "Generated histories (lists of up to 40 operations: chunk / finalize / compute_full / frame_by_frame_calculation / "
    "refused mid-utterance calls) on one instance; model = `started` flag plus a freshly constructed twin per utterance "
    "that receives the same chunks; outputs must be bit-identical, inputs (read-only arrays) untouched."
)
ASSUMPTIONS = [
    "a history uses one dtype per utterance (SI documents a ValueError for mixed dtypes inside an utterance)",
    "empty (0-frame) results are compared by shape only: an empty matrix has no feature bits and its dtype after a zero-sample utterance is not part of the statement",
    "configurations as in C01 (SI inside the frame-shift precondition), 1 kHz; STFT computers also with a frame shift above the frame length "
    "(without kaldi_shift, where compute_full of the unmodified library rejects most signals)",
    "'input arrays are never modified' is judged for read-only arrays (must be accepted) and for writable ones, against a private copy, "
    "after the call and after every later call of the history; utterances may end in NaN / inf samples (results compared NaN-aware)",
]

DT = {"f64": np.float64, "f32": np.float32}


def _thr():
    from pydrobert.speech import config

    return config.EFFECTIVE_SUPPORT_THRESHOLD


def _same(a, b, what, dtype_too=True):
    require(isinstance(a, np.ndarray) and a.ndim == 2, "{}: returned {!r}", what, type(a))
    require(a.shape == b.shape, "{}: shape {} but a fresh instance gives {}", what, a.shape, b.shape)
    if dtype_too and a.size:
        require(a.dtype == b.dtype, "{}: dtype {} but a fresh instance gives {}", what, a.dtype, b.dtype)
    if a.size:
        same = np.array_equal(a, b, equal_nan=True)
        if not same:
            idx = np.argwhere(a != b)[0]
            raise Violation(
                "%s: not bit-identical to a fresh instance at %s: %r vs %r" % (what, tuple(idx), a[tuple(idx)], b[tuple(idx)])
            )


def _sig(op, dt, writable=False):
    kind = op.get("kind", "noise")
    tail = kind in ("nan_tail", "inf_tail")
    x = make_signal({"n": op["n"], "kind": "noise" if tail else kind, "seed": op.get("seed", 0), "scale": op.get("scale", 1.0)}, DT[dt])
    if tail and len(x):
        # a recording that ends in non-finite samples (a clipped / corrupted tail): whatever it leaves in the
        # instance's buffers must not reach the next utterance
        x[-max(1, len(x) // 3):] = np.nan if kind == "nan_tail" else np.inf
    # read-only arrays must be accepted; writable ones must come back untouched (now and after every later call)
    x.flags.writeable = bool(writable)
    return x


def check_history(case):
    from pydrobert.speech.compute import frame_by_frame_calculation

    spec = case["comp"]
    if gabor_degenerate(spec["bank"], _thr()) or gammatone_degenerate(spec["bank"], _thr()):
        raise Discard()
    bank = call("bank constructor", build_bank, spec["bank"])
    real = call("computer constructor", build_computer, spec, bank)
    L, S = real.frame_length, real.frame_shift
    if spec["kind"] == "stft" and (S < 1 or (S > L and spec.get("kaldi_shift"))):
        raise Discard()  # (with kaldi_shift and a shift above the length compute_full itself rejects most signals)
    fresh = lambda: build_computer(spec, bank)  # noqa
    require(real.started is False, "a new instance reports started={!r}", real.started)

    started = False
    twin = None
    dt = "f64"
    utterances = 0
    refused = 0
    classes = set()
    cur_samples = 0
    last_chunk_subframe = False
    interesting = False
    labels = set(["kind=" + spec["kind"], "style=" + real.frame_style])
    writable = bool(case.get("writable"))
    labels.add("writable inputs" if writable else "read-only inputs")
    handed = []  # (array given to the instance, private copy, step) - the caller keeps its arrays

    def untouched(now):
        for arr, copy_, step in handed:
            require(arr.tobytes() == copy_.tobytes(), "{}: the array given to the instance at {} was modified afterwards", now, step)

    def length_class(n):
        return "0" if n == 0 else ("<L/2+1" if n < L // 2 + 1 else ("<L" if n < L else ">=L"))

    for i, op in enumerate(case["ops"]):
        kind = op["op"]
        tag = "step %d (%s)" % (i, kind)
        if kind == "chunk":
            if not started:
                twin = fresh()
                dt = op.get("dtype", "f64")
                cur_samples = 0
                utterances += 1
            x = _sig(op, dt, writable)
            keep = x.copy()
            handed.append((x, keep, tag))
            a = call(tag + " compute_chunk", real.compute_chunk, x)
            b = twin.compute_chunk(keep.copy())
            _same(a, b, tag + " compute_chunk(len %d) in utterance %d" % (len(x), utterances))
            require(x.tobytes() == keep.tobytes(), "{}: input chunk was modified", tag)
            started = True
            cur_samples += len(x)
            last_chunk_subframe = len(x) < L
            labels.add("chunk:" + length_class(len(x)))
        elif kind == "finalize":
            if started:
                a = call(tag, real.finalize)
                b = twin.finalize()
                _same(a, b, tag + " finalize of utterance %d (%d samples)" % (utterances, cur_samples))
                if utterances >= 2 and (last_chunk_subframe or len(classes) >= 1):
                    interesting = True
                classes.add(length_class(cur_samples))
                started = False
                labels.add("utt:" + length_class(cur_samples))
            else:
                a = call(tag + " (no utterance in progress)", real.finalize)
                b = fresh().finalize()
                _same(a, b, tag + " repeated finalize", dtype_too=False)
                labels.add("repeated-finalize")
        elif kind in ("full", "fbf"):
            x = _sig(op, op.get("dtype", "f64"), writable)
            keep = x.copy()
            handed.append((x, keep, tag))
            if started:
                if kind == "full":
                    expect_raises(tag + " compute_full mid-utterance", ValueError, real.compute_full, x)
                else:
                    expect_raises(tag + " frame_by_frame_calculation mid-utterance", ValueError,
                                  frame_by_frame_calculation, real, x, op.get("chunk_size", 7))
                refused += 1
                labels.add("refused-" + kind)
            else:
                f = fresh()
                if kind == "full":
                    a = call(tag, real.compute_full, x)
                    b = f.compute_full(keep.copy())
                else:
                    cs = op.get("chunk_size", 7)
                    a = call(tag, frame_by_frame_calculation, real, x, cs)
                    b = frame_by_frame_calculation(f, keep.copy(), cs)
                utterances += 1
                _same(a, b, tag + " on %d samples as utterance %d" % (len(x), utterances))
                if utterances >= 2 and len(classes) >= 1:
                    interesting = True
                classes.add(length_class(len(x)))
                labels.add(kind + ":" + length_class(len(x)))
            require(x.tobytes() == keep.tobytes(), "{}: input signal was modified", tag)
        else:
            raise Violation("unknown op %r" % kind)
        require(real.started is started or real.started == started, "{}: started is {!r}, expected {!r}", tag, real.started, started)
        untouched(tag)
    if refused and utterances >= 2:
        interesting = True
    labels.add("utterances>=2" if utterances >= 2 else "utterances<2")
    if refused:
        labels.add("has-refused-call")
    return {"nontrivial": interesting, "labels": sorted(labels)}


def _sig_fields():
    return dict(
        seed=st.integers(0, 2 ** 16),
        kind=st.sampled_from(["noise", "noise", "noise", "const", "impulse", "zeros", "nan_tail", "inf_tail", "gated"]),
        scale=st.sampled_from([1.0, 50.0]),
    )


@st.composite
def _utterance(draw, L, S, long_total=None):
    """One utterance as a list of operations. Total lengths are drawn from the classes that matter:
    empty, too short for a frame, sub-frame but long enough, about one frame, several frames."""
    total = draw(st.one_of(
        st.just(0),
        st.integers(1, max(L // 2, 1)),
        st.integers(L // 2 + 1, max(L - 1, L // 2 + 1)),
        # long enough for a frame but shorter than the right padding of its last frame
        st.integers(L // 2 + 1, max(L - S - 1, L // 2 + 1)),
        st.integers(L, L + S),
        st.integers(L, 4 * L + 3),
        st.sampled_from([L // 2, L // 2 + 1, L - 1, L, L + 1, 2 * L + S]),
    ) if long_total is None else st.one_of(*([st.integers(L, 4 * L + 3)] * 5 + [st.sampled_from(long_total)])))
    mode = draw(st.sampled_from(["chunks", "chunks", "chunks", "full", "fbf"]))
    dtype = draw(st.sampled_from(["f64", "f64", "f32"]))
    sig = {k: draw(v) for k, v in _sig_fields().items()}
    if mode == "full":
        return [dict(op="full", n=total, dtype=dtype, **sig)]
    if mode == "fbf":
        return [dict(op="fbf", n=total, dtype=dtype, chunk_size=draw(st.integers(1, 2 * L + 1)), **sig)]
    ncuts = draw(st.integers(0, 3))
    cuts = sorted(draw(st.lists(st.integers(0, total), min_size=ncuts, max_size=ncuts)))
    pts = [0] + cuts + [total]
    ops = []
    for i in range(len(pts) - 1):
        n = pts[i + 1] - pts[i]
        ops.append(dict(op="chunk", n=n, dtype=dtype, seed=sig["seed"] + i, kind=sig["kind"], scale=sig["scale"]))
        if draw(st.sampled_from([False] * 4 + [True])):
            # a call that must be refused mid-utterance; its signal may have another float dtype than the utterance in progress
            r = draw(st.sampled_from(["full", "fbf"]))
            ops.append(dict(op=r, n=draw(st.sampled_from([0, 1, L // 2, L, 3 * L])), dtype=draw(st.sampled_from([dtype, dtype, "f64", "f32"])),
                            chunk_size=draw(st.integers(1, L + 1)), **sig))
    ops.append({"op": "finalize"})
    if draw(st.sampled_from([False, False, False, True])):
        ops.append({"op": "finalize"})
    return ops


def _ops(L, S, long_total=None):
    if long_total is not None:
        # the same histories, plus (one utterance in six of one history in three) a recording of several DFT blocks
        return st.one_of(_ops(L, S), _ops(L, S),
                         st.lists(st.one_of(_utterance(L, S), _utterance(L, S, long_total)), min_size=2, max_size=5).map(lambda us: [op for u in us for op in u]))
    return st.lists(_utterance(L, S), min_size=2, max_size=8).map(lambda us: [op for u in us for op in u])


@st.composite
def _histories(draw, kind):
    if kind == "stft":
        comp = draw(stft_specs(max_len=24))
        comp["frame_style"] = draw(st.sampled_from(["causal", "centered"]))
        if draw(st.booleans()):
            comp["S"] = draw(st.integers(1, max(1, comp["L"] // 3)))
        elif draw(st.integers(0, 3)) == 0:
            # sub-sampled analysis: a frame shift above the frame length leaves samples between frames that belong to
            # no frame - "any computer configuration" includes it, and history independence does not need more
            comp["S"] = comp["L"] + draw(st.integers(1, 2 * comp["L"] + 1))
            comp["kaldi_shift"] = False
        L, S = comp["L"], comp["S"]
    else:
        comp = draw(si_specs())
        S = comp["S"]
        L = draw(st.sampled_from([8, 20, 60, 150]))
        return {"comp": comp, "ops": draw(_ops(L, S, [1500, 3000, 5000])), "writable": draw(st.booleans())}
    return {"comp": comp, "ops": draw(_ops(L, S)), "writable": draw(st.booleans())}


def clauses(tier):
    rule = ("non-trivial = history with >= 2 utterances in which an earlier utterance of another length class exists, "
            "or an utterance ended right after a sub-frame chunk, or a refused mid-utterance call occurred; distinct by full history")
    return [
        Clause("stft_history", check_history, rule, lambda: _histories("stft"), quick=900, thorough=30000),
        Clause("si_history", check_history, rule, lambda: _histories("si"), quick=200, thorough=6000),
    ]
