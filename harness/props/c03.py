"""C03 - short-integration coefficients equal their documented definition."""
import numpy as np
from hypothesis import strategies as st

from ..core import Clause, Discard, Violation, call, expect_raises, require
from ..oracles import si_ref
from ..strategies import (log_floor_configs, with_config, bank_specs, build_bank, build_si, build_window, gabor_degenerate, gammatone_degenerate,
                          make_signal, si_shift_bound, si_specs, signal_specs, SIGNAL_KINDS, EXTREME_KINDS)

PROPERTY = "C03"
LEVEL = "exploration"
RULE = (
    "Generated (bank, frame shift inside the precondition, style, padding, window, log/power/energy, float dtype, signal) "
    "cases at 1-2 kHz; oracle = time-domain reference (np.convolve with the clamped impulse response, zero-extended "
    "signal, window-weighted sum over 2 x frame_shift samples), accepting a +-1 sample alignment per coefficient."
)
ASSUMPTIONS = [
    "frame shift below the longest filter's one-sided support under both readings (from sample 0 and from the centre)",
    "numpy FFT path only; DFT size recomputed from the documented rule (max(frame_length, 2*rate/min bandwidth), power of two when padded) because the impulse response aliases into that buffer",
    "a column is accepted if it matches the reference for one alignment in {-1,0,+1} samples ('centred on' is ambiguous by one sample for an even span)",
    "a configured LOG_FLOOR_VALUE that rounds to zero in the signal's dtype (1e-9 in half precision) is not generated: the floor of the statement is then not a value of the result's dtype",
    "signals near the ends of the exponent range (samples of 2**+-600 in double, 2**+-60 in single) are generated; a case is discarded when (max|x| sum|h|)^p or the reference itself exceeds a quarter of the dtype's largest value (the statement's value is then not representable)",
    "tolerance = 1e-7 of the (linear) column maximum + 1e-10 of the matrix maximum + 1e-13 of the coefficient's upper bound sum|w|(max|x| sum|h|)^p for the double-precision computation, plus the rounding of the stored value to the output dtype (2e-7 float32, 2e-3 float16, relative)",
]

DT = {"f64": np.float64, "f32": np.float32, "f16": np.float16, "ld": np.longdouble}
# rounding of the stored result to the output dtype (relative to the stored value)
SUBNORMAL = {"f64": 0.0, "ld": 0.0, "f32": 1e-44, "f16": 1.2e-7}
CAST = {"f64": 0.0, "ld": 0.0, "f32": 2e-7, "f16": 2e-3}


def _thr():
    from pydrobert.speech import config

    return config.EFFECTIVE_SUPPORT_THRESHOLD


def check_definition(case):
    from pydrobert.speech import config, filters

    spec, dt = case["comp"], case["dtype"]
    if gabor_degenerate(spec["bank"], _thr()) or gammatone_degenerate(spec["bank"], _thr()):
        raise Discard()
    bank = call("bank constructor", build_bank, spec["bank"])
    sib = case.get("sibling")
    if sib == "before":
        # another computer around the SAME bank object (different include_energy) is built first ...
        call("SI constructor (sibling)", build_si, dict(spec, include_energy=not spec["include_energy"]), bank)
    comp = call("SI constructor", build_si, spec, bank)
    if sib == "after":
        # ... or afterwards: computers sharing a bank must not share anything else
        call("SI constructor (sibling)", build_si, dict(spec, include_energy=not spec["include_energy"]), bank)
    S = comp.frame_shift
    if S < 1 or S >= si_shift_bound(bank):
        raise Discard()
    style = spec["frame_style"] or ("centered" if bank.is_zero_phase else "causal")
    require(comp.frame_style == style, "frame_style {!r}, documented default {!r}", comp.frame_style, style)
    T, M = si_ref.geometry(bank, style)
    D = si_ref.documented_dft_size(bank, S, spec["pad"], M)
    if D > 8192:
        raise Discard()
    if spec["window"] is not None:
        w = build_window(spec["window"])
    else:
        w = filters.GammaWindow() if style == "causal" else filters.HannWindow()
    window = np.asarray(w.get_impulse_response(2 * S), dtype=np.float64)
    sig = dict(case["sig"])
    if dt == "f16":
        sig["scale"] = min(sig.get("scale", 1.0), 1.0)
    x = make_signal(sig, DT[dt])
    x.flags.writeable = False
    N = len(x)
    pr = case.get("prior")
    if pr and pr.get("refused") == "int16_only":
        pr = dict(pr, sig=None)
    if pr and pr.get("sig") is not None:
        y = make_signal(pr["sig"], DT[dt])
        if pr.get("chunked"):
            h = len(y) // 2
            call("compute_chunk (earlier utterance)", comp.compute_chunk, y[:h])
            call("compute_chunk (earlier utterance)", comp.compute_chunk, y[h:])
            call("finalize (earlier utterance)", comp.finalize)
        else:
            call("compute_full (earlier utterance)", comp.compute_full, y)
    if pr and pr.get("refused"):
        # a rejected call (non-floating samples) is over when it has raised: the computer must still take the next signal
        try:
            comp.compute_full(np.arange(1, 40, dtype=np.int16))
        except Exception:  # noqa - how integer input is rejected is not judged here
            pass
    if case.get("serialise"):
        # the computer is pickled / deep-copied (sent to a worker process) before it is used here: serialising an object
        # must not change the object
        import copy
        import pickle

        try:
            pickle.dumps(comp) if case["serialise"] == "pickle" else copy.deepcopy(comp)
        except Exception:  # noqa - whether a computer can be serialised at all is not judged
            pass
    got = call("compute_full(%s[%d])" % (dt, N), comp.compute_full, x)
    ncoef = bank.num_filts + int(spec["include_energy"])
    K = (N + S // 2) // S
    require(got.ndim == 2 and got.shape == (K, ncoef), "N={} S={}: shape {} but documented (N+S//2)//S = {} frames x {} coefficients", N, S, got.shape, K, ncoef)
    require(got.dtype == DT[dt], "result dtype {} for {} input", got.dtype, np.dtype(DT[dt]))
    require(not comp.started, "computer still started after compute_full")
    labels = ["dtype=" + dt, "style=" + style, "bank=" + spec["bank"]["alias"], "pad" if spec["pad"] else "nopad",
              "power" if spec["use_power"] else "magnitude", "log" if spec["use_log"] else "linear"]
    if spec["include_energy"]:
        labels.append("energy")
    blocks = N >= D - M + 1
    labels.append("N>=one-DFT-block" if blocks else "N<one-DFT-block")
    if K == 0:
        return {"nontrivial": False, "labels": labels + ["noframes"]}
    p = 2 if spec["use_power"] else 1
    if spec["use_log"] and float(DT[dt](config.LOG_FLOOR_VALUE)) == 0.0:
        raise Discard()
    xf = np.asarray(x, dtype=np.float64)
    g64 = got.astype(np.float64)
    floor = config.LOG_FLOOR_VALUE
    start0 = 0 if style == "causal" else -S
    cols = []
    if spec["include_energy"]:
        cols.append(("energy", np.ones(1), 0, 0))
    for i in range(bank.num_filts):
        g, t0 = si_ref.taps_for(bank, i, D, style, T, M)
        if style == "centered":
            l, r = bank.supports[i]
            d = (l + r) // 2 - 1
        else:
            d = 0
        cols.append(("filter %d" % i, g, t0, d))
    with np.errstate(all="ignore"):
        reach = float(np.power(np.float64(np.max(np.abs(xf))) * max(float(np.sum(np.abs(g))) for _, g, _, _ in cols), p)) if len(xf) else 0.0
    if not np.isfinite(reach) or reach > 0.25 * float(np.finfo(DT[dt]).max):
        # |signal * h|^p itself may leave the range of the dtype (huge samples in power mode) before any window
        # weight (possibly 0) is applied: the statement's value is not representable, nothing to compare
        raise Discard()
    refs = {}
    gmax = 0.0
    for c, (name, g, t0, d) in enumerate(cols):
        for delta in (0, -1, 1):
            ref = si_ref.column(xf, g, t0, K, S, window, start0, d + delta, p)
            if spec["use_log"]:
                ref = np.maximum(ref, floor)
            refs[c, delta] = ref
        gmax = max(gmax, float(np.max(np.abs(refs[c, 0]))))
    if not np.isfinite(gmax) or gmax > 0.25 * float(np.finfo(DT[dt]).max):
        # the defined value itself leaves the range of the dtype (huge samples in power mode): nothing to compare
        raise Discard()
    require(np.all(np.isfinite(got.astype(np.float64))), "non-finite coefficients (the time-domain reference is finite, at most {!r})", gmax)
    for c, (name, g, t0, d) in enumerate(cols):
        best = None
        for delta in (0, -1, 1):
            ref = refs[c, delta]
            colmax = float(np.max(np.abs(ref)))
            # model error of the double-precision computation, in the linear domain
            # (plus round-off measured against the largest value the coefficient could take for this
            # signal: sum|w| * (max|x| * sum|h|)^p -- a column of 1e-19 is numerically zero, not data)
            natural = float(np.sum(np.abs(window))) * (float(np.max(np.abs(xf))) * float(np.sum(np.abs(g)))) ** p if len(xf) else 0.0
            tol_lin = 1e-9 * colmax + 1e-11 * gmax + 1e-13 * natural + 1e-300
            if spec["use_log"]:
                ref_out = np.log(ref)
                # the linear value is rounded to the output dtype before its log is taken and rounded again
                tol = tol_lin / ref + CAST[dt] * (np.abs(ref_out) + 2.0)
            else:
                ref_out = ref
                tol = tol_lin + CAST[dt] * np.abs(ref_out) + SUBNORMAL[dt]
            err = np.abs(g64[:, c] - ref_out)
            if np.all(err <= tol):
                best = delta
                break
            if delta == 0:
                k = int(np.argmax(err - tol))
                worst0 = (k, float(g64[k, c]), float(ref_out[k]), colmax)
        if best is None:
            k, gv, rv, cm = worst0
            raise Violation(
                "N=%d S=%d M=%d D=%d style=%s dtype=%s: coefficient %d (%s) frame %d is %r, time-domain reference %r "
                "(linear column max %r); no alignment in {-1,0,+1} matches" % (N, S, M, D, style, dt, c, name, k, gv, rv, cm)
            )
        if best != 0:
            labels.append("aligned%+d" % best)
    return {"nontrivial": K >= 2 and blocks, "labels": labels}


def check_rejects_int(case):
    """Not part of the statement's positive claim, but the documented contract of the dtype rule:
    only used to keep the generator honest -- integer input is outside 'any floating dtype'."""
    raise Discard()


@st.composite
def _cases(draw, dtypes=("f64", "f64", "f32", "f16", "ld")):
    rate = draw(st.sampled_from([1000, 1000, 2000]))
    comp = draw(si_specs(bank=bank_specs(rates=[rate], max_filts=3, allow_l2="gabor")))
    S = comp["S"]
    n = draw(st.one_of(
        st.integers(0, 3 * S + 2),
        st.integers(0, 400),
        st.builds(lambda k, d: max(0, k + d), st.sampled_from([16, 32, 64, 128, 256, 512, 1024, 2048]), st.integers(-3, 60)),
        st.integers(200, 1500),
    ))
    if draw(st.integers(0, 59)) == 0:
        n = draw(st.sampled_from([4097, 8193]))
    prior = draw(st.one_of(st.none(), st.none(), st.fixed_dictionaries({
        # (often a click of a few samples: too short for a frame, so nothing of it is flushed by a final frame)
        "sig": signal_specs(st.one_of(st.integers(0, 300), st.integers(1, 6), st.integers(1, 6))), "chunked": st.booleans(),
        # the earlier use may also end with (or consist of) a call the computer rejects: integer samples
        "refused": st.sampled_from([None, None, "int16", "int16_only"])})))
    return {"comp": comp, "dtype": draw(st.sampled_from(list(dtypes))), "sig": draw(signal_specs(st.just(n), SIGNAL_KINDS + EXTREME_KINDS)), "prior": prior,
            "config": draw(log_floor_configs()), "sibling": draw(st.sampled_from([None, None, "before", "after"])),
            "serialise": draw(st.sampled_from([None, None, None, "pickle", "deepcopy"]))}


def clauses(tier):
    return [
        Clause("definition", with_config(check_definition),
               "non-trivial = >= 2 frames and at least one full overlap-save block (N >= D - M + 1); distinct by full case",
               _cases, quick=750, thorough=40000, fuzz_runs=2500),
    ]
