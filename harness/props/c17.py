"""C17 - saved normalisation statistics reload to the same transform."""
import contextlib
import os
import tempfile

import numpy as np
from hypothesis import strategies as st

from ..core import Clause, Discard, HarnessError, Violation, call, expect_raises, require
from ..oracles import post_ref
from .c16 import make_dataset as _make_dataset

CONST_VALUES = [-23.025850929940457, 0.1, -1.0 / 3.0, 1e-5, 12345.678, 0.0]


def make_dataset(spec, n=None, seed=None):
    """c16's data set, optionally with some coefficients made constant ("any accumulated data": a floored
    log-energy column has zero variance and its computed variance may round slightly negative)."""
    data = _make_dataset(spec, n=n, seed=seed)
    if spec.get("all_zero"):
        data = np.zeros_like(data)  # digital silence / zero padding: every accumulated value is exactly 0
    for j, col in enumerate(spec.get("const") or ()):
        data[:, col % data.shape[1]] = np.asarray(CONST_VALUES[(j + spec.get("const_val", 0)) % len(CONST_VALUES)], dtype=data.dtype)
    return data


PROPERTY = "C17"
LEVEL = "exploration"
RULE = (
    "Generated histories: accumulated data (float32/float64, per-coefficient location of either sign, scale 1e-3..1e4, "
    "samples from a drawn PCG64 seed), then 1-6 operations on ONE path of a drawn kind (.npy / .npz / raw binary): "
    "save(key, compress, overwrite) and further accumulate calls in between, optionally on a pre-existing .npz holding "
    "foreign entries.  After every save the file is reloaded through Standardize(path, ...) the way it was written and "
    "both objects are applied to the same drawn tensor and vector.  All files live in a TemporaryDirectory removed per case."
)
ASSUMPTIONS = [
    "raw-binary statistics are reloaded with force_as='file' (read_signal cannot infer the type of a suffix-less file); "
    ".npz statistics saved without a key are reloaded from the documented first unused arr_N key (no key argument "
    "when that is arr_0)",
    "'identical apply' is judged at 1e-12 * max(1, max|y|) (NaNs, which only arise from a zero/negative computed "
    "variance, must coincide)",
    "the statement fixes that `overwrite` decides whether other archive entries are kept, not the direction: after a "
    "save the archive must be either {old entries + new key} or {new key} only, the same flag value must always give "
    "the same outcome and the two flag values different outcomes",
    "compress=True is only required to produce a loadable archive (the compression itself is not observed)",
    "key/compress/overwrite are passed for .npz targets only",
]

FNAMES = {"npy": ["stats.npy", "stats.npy", "a.b.npy", ".npy"], "npz": ["stats.npz", "stats.npz", "a.b.npz", ".npz"],
          "raw": ["stats.bin", "stats", "stats.dat", "cmvn.NPY", "Cmvn.Npz", "stats.npy.bak", ".stats"]}
FOREIGN = ["foo", "bar", "arr_0", "arr_1", "arr_3"]
USER_KEYS = [None, None, None, "stats", "k", "arr_7", "1034", "0", "007"]  # (all-digit names are names, not positions)


def foreign_value(key):
    n = sum(ord(c) for c in key) % 5 + 1
    if n % 2:
        return np.arange(n, dtype=np.int32) - 2
    return (np.arange(2 * n, dtype=np.float64).reshape(2, n) - 1.5) * 0.25


def read_archive(path, written_by_us=False):
    try:
        with np.load(path) as z:
            return {k: np.array(z[k]) for k in z.files}
    except Exception as e:  # noqa
        if written_by_us:
            raise
        raise Violation("the .npz target %r is not a readable numpy archive after save (%s: %s)" % (os.path.basename(path), type(e).__name__, str(e)[:80]))


def first_unused(keys):
    n = 0
    while "arr_%d" % n in keys:
        n += 1
    return "arr_%d" % n


def _same_entry(a, b):
    return a.shape == b.shape and a.dtype == b.dtype and np.array_equal(a, b)


def classify(before, after, key):
    """-> (direction, stats key).  direction: 'kept', 'dropped' or None when both readings coincide."""
    k_kept = key if key is not None else first_unused(before)
    k_drop = key if key is not None else "arr_0"
    kept = set(after) == set(before) | {k_kept} and all(
        _same_entry(after[k], before[k]) for k in before if k != k_kept
    )
    dropped = set(after) == {k_drop}
    if kept and dropped:
        return None, k_kept
    if kept:
        return "kept", k_kept
    if dropped:
        return "dropped", k_drop
    raise Violation(
        "after save(key=%r) on an archive holding %s the archive holds %s: neither the old entries plus %r nor %r alone"
        % (key, sorted(before), sorted(after), k_kept, k_drop)
    )


def note_direction(dirs, flag, direction):
    if direction is None:
        return
    if flag in dirs:
        require(dirs[flag] == direction,
                "overwrite={} {} the other entries on one save and {} them on another", flag, dirs[flag], direction)
    other = not flag
    if other in dirs:
        require(dirs[other] != direction,
                "other archive entries are {} with overwrite=True and with overwrite=False alike: the flag decides nothing",
                direction)
    dirs[flag] = direction


def save_kwargs(op):
    kw = {}
    if op.get("key") is not None:
        kw["key"] = op["key"]
    if op.get("compress") is not None:
        kw["compress"] = bool(op["compress"])
    if op.get("overwrite") is not None:
        kw["overwrite"] = bool(op["overwrite"])
    return kw


def compare_transforms(orig, loaded, spec, seed, how):
    x = make_dataset(spec, n=3, seed=seed).astype(np.float64)
    for arr, what in ((x, "tensor"), (x[0].copy(), "vector")):
        a = call("original.apply(%s)" % what, orig.apply, arr.copy(), axis=-1)
        b = call("reloaded.apply(%s)" % what, loaded.apply, arr.copy(), axis=-1)
        require(a.shape == b.shape, "{}: reloaded apply gives shape {}, original {}", how, b.shape, a.shape)
        fin = np.isfinite(a)
        require(np.array_equal(fin, np.isfinite(b)), "{}: reloaded apply is non-finite where the original is not", how)
        mx = max(1.0, float(np.max(np.abs(a[fin])))) if fin.any() else 1.0
        err = float(np.max(np.abs(a[fin] - b[fin]))) if fin.any() else 0.0
        require(err <= 1e-12 * mx,
                "{}: reloaded statistics transform the {} differently (max |diff| {:.3g}, original {}, reloaded {})",
                how, what, err, a.ravel()[:4].tolist(), b.ravel()[:4].tolist())


# ------------------------------------------------------------------ clause: reload_<kind>


def _data_specs():
    @st.composite
    def specs(draw):
        F = draw(st.sampled_from([1, 2, 3, 4, 5]))
        mult = st.one_of(st.integers(-50, 50).map(float), st.sampled_from([-50.0, -1.0, -0.01, 0.0, 0.5, 50.0]))
        return {
            "N": draw(st.sampled_from([1, 2, 3, 5, 8, 50, 100])),
            "const": draw(st.one_of(st.just([]), st.just([]), st.lists(st.integers(0, 4), min_size=1, max_size=2, unique=True))),
            "const_val": draw(st.integers(0, 5)),
            "all_zero": draw(st.sampled_from([False] * 9 + [True])),
            "m": [draw(mult) for _ in range(F)],
            "s": [draw(st.sampled_from([1e-3, 0.1, 1.0, 1.0, 7.0, 100.0, 1e4])) for _ in range(F)],
            "dtype": draw(st.sampled_from(["f64", "f32"])),
            "seed": draw(st.integers(0, 2 ** 32 - 1)),
        }

    return specs()


def _save_ops(kind):
    if kind != "npz":
        return st.fixed_dictionaries({"op": st.just("save"), "resave": st.sampled_from([False, False, True])})
    return st.fixed_dictionaries(
        {
            "op": st.just("save"),
            "key": st.sampled_from(USER_KEYS),
            "compress": st.sampled_from([None, False, True]),
            "overwrite": st.sampled_from([None, True, False]),
        }
    )


def _acc_ops():
    return st.fixed_dictionaries(
        {"op": st.just("acc"), "n": st.sampled_from([1, 1, 2, 3]), "seed": st.integers(0, 2 ** 16)}
    )


def reload_cases(kind):
    @st.composite
    def cases(draw):
        n_ops = draw(st.sampled_from([1, 2, 3, 3, 4, 4, 5, 6]))
        # between the saves of the judged object: more data, or ANOTHER object (other statistics) writing to the same path
        ops = [draw(st.one_of(_save_ops(kind), _save_ops(kind), _acc_ops(), st.sampled_from([{"op": "other"}, {"op": "other", "wider": True}]))) for _ in range(n_ops - 1)]
        ops.append(draw(_save_ops(kind)))
        return {
            "kind": kind,
            "fname": draw(st.sampled_from(FNAMES[kind])),
            "data": draw(_data_specs()),
            "norm_var": draw(st.sampled_from([True, True, False])),
            "vectors_first": draw(st.booleans()),
            "pre": sorted(draw(st.sets(st.sampled_from(FOREIGN), min_size=1, max_size=3)))
            if kind == "npz" and draw(st.sampled_from([True, True, False])) else [],
            "ops": ops,
            "apply_seed": draw(st.integers(0, 2 ** 16)),
            "bare_name": draw(st.sampled_from([False, False, False, True])),
        }

    return cases


@contextlib.contextmanager
def _cwd(d):
    if d is None:
        yield
        return
    old = os.getcwd()
    os.chdir(d)
    try:
        yield
    finally:
        os.chdir(old)


def check_reload(case):
    from pydrobert.speech.post import Standardize

    kind, fname, spec = case["kind"], case["fname"], case["data"]
    suffixed = fname.endswith(".npy") or fname.endswith(".npz")
    if kind not in FNAMES or (kind == "raw" and suffixed) or (kind != "raw" and not fname.endswith("." + kind)):
        raise Discard()
    nv = bool(case.get("norm_var", True))
    data = make_dataset(spec)
    s = call("Standardize", Standardize, norm_var=nv)
    if case.get("vectors_first"):
        for v in data:
            call("accumulate(vector)", s.accumulate, v)
    else:
        call("accumulate(tensor)", s.accumulate, data, axis=-1)
    total = data.astype(np.float64).sum(axis=0)
    labels = ["file=" + fname, "dtype=" + spec["dtype"], "norm_var" if nv else "mean_only"]
    n_saves, acc_between = 0, False
    with tempfile.TemporaryDirectory(prefix="verif_c17_") as td, _cwd(td if case.get("bare_name") else None):
        # a target in the current directory may be given as a bare file name (no directory part)
        path = fname if case.get("bare_name") else os.path.join(td, fname)
        if case.get("bare_name"):
            labels.append("bare-file-name")
        before = {}
        if kind == "npz" and case.get("pre"):
            before = {k: foreign_value(k) for k in case["pre"]}
            np.savez(path, **before)
            labels.append("pre-existing-archive")
        dirs = {}
        last_kw = {}
        for op in case["ops"]:
            if op["op"] == "acc":
                extra = make_dataset(spec, n=max(2, int(op["n"])), seed=op["seed"])[: int(op["n"])]
                if extra.shape[0] == 1:
                    call("accumulate(vector)", s.accumulate, extra[0])
                else:
                    call("accumulate(tensor)", s.accumulate, extra.T, axis=0)
                total = total + extra.astype(np.float64).sum(axis=0)
                if n_saves:
                    acc_between = True
                continue
            if op["op"] == "other":
                # a second writer: another Standardize object with different statistics saves to the same path, with the
                # arguments of the judged object's last save; the judged object's next save must put its own statistics back
                b = Standardize(norm_var=nv)
                wide = data.astype(np.float64) * 3.0 + 100.0
                if op.get("wider"):
                    # ... of a LARGER feature dimension: the file it leaves behind is longer than the judged object's
                    wide = np.hstack([wide] * 3)
                b.accumulate(wide, axis=-1)
                call("save by another object to the same path", b.save, path, **last_kw)
                if kind == "npz":
                    before = read_archive(path)
                if n_saves:
                    labels.append("other-writer-between-saves")
                continue
            kw = save_kwargs(op) if kind == "npz" else {}
            last_kw = dict(kw)
            existed = os.path.exists(path)
            how = "save #%d to %s %s(%s)" % (
                n_saves + 1, "an existing" if existed else "a new", fname,
                ", ".join("%s=%r" % kv for kv in sorted(kw.items())),
            )
            call(how, s.save, path, **kw)
            require(os.path.isfile(path), "{}: no file was written", how)
            rk = {}
            if kind == "raw":
                rk["force_as"] = "file"
            elif kind == "npz":
                after = read_archive(path)
                flag = True if op.get("overwrite") is None else bool(op["overwrite"])
                direction, skey = classify(before, after, op.get("key"))
                note_direction(dirs, flag, direction)
                if direction:
                    labels.append("others-" + direction)
                if skey != "arr_0":
                    rk["key"] = skey
                if op.get("key") is None and skey != "arr_0":
                    labels.append("key=arr_N>0")
                labels.append("compress=%s" % op.get("compress"))
                labels.append("overwrite=%s" % op.get("overwrite"))
                labels.append("key=None" if op.get("key") is None else "key=str")
                before = after
            loaded = call(
                "%s; Standardize(rfilename%s)" % (how, "".join(", %s=%r" % kv for kv in sorted(rk.items()))),
                Standardize, path, norm_var=nv, **rk
            )
            require(bool(loaded.have_stats), "{}: the reloaded object reports no statistics", how)
            compare_transforms(s, loaded, spec, case.get("apply_seed", 0), how)
            if op.get("resave") and kind != "npz":
                # the reloaded object writes its statistics back to the file it came from (still alive), and a
                # third object is loaded from that file
                call(how + "; reloaded.save(same path)", loaded.save, path)
                again = call(how + "; Standardize(rfilename) after the reloaded object saved", Standardize, path, norm_var=nv, **rk)
                require(bool(again.have_stats), "{}: no statistics after the reloaded object saved to its own file", how)
                compare_transforms(s, again, spec, case.get("apply_seed", 0), how + " (re-saved by the reloaded object)")
                compare_transforms(s, loaded, spec, case.get("apply_seed", 0), how + " (the reloaded object after saving)")
                labels.append("resaved-by-reloaded")
            n_saves += 1
            if existed:
                labels.append("save-on-existing")
    if n_saves < 1:
        raise Discard()
    neg = bool((total < 0).any())
    if neg:
        labels.append("neg-sum")
    if bool((total < 0).all()):
        labels.append("all-neg-sums")
    labels.append("saves=%d" % min(n_saves, 4))
    if acc_between:
        labels.append("acc-between-saves")
    return {"nontrivial": neg or n_saves >= 2, "labels": sorted(set(labels))}


# ------------------------------------------------------------------ clause: npz_overwrite_flag


@st.composite
def flag_cases(draw):
    pre = sorted(draw(st.sets(st.sampled_from(FOREIGN), min_size=1, max_size=4)))
    return {
        "data": draw(_data_specs()),
        "pre": pre,
        "settings": [
            {"key": draw(st.sampled_from(USER_KEYS)), "compress": draw(st.sampled_from([None, False, True]))}
            for _ in range(2)
        ],
        "apply_seed": draw(st.integers(0, 2 ** 16)),
    }


def check_flag(case):
    from pydrobert.speech.post import Standardize

    spec = case["data"]
    pre = [k for k in case["pre"]]
    if not pre or any(st_.get("key") in pre for st_ in case["settings"]):
        raise Discard()
    data = make_dataset(spec)
    s = call("Standardize", Standardize)
    call("accumulate", s.accumulate, data, axis=-1)
    dirs = {}
    labels = []
    with tempfile.TemporaryDirectory(prefix="verif_c17_") as td:
        for i, setting in enumerate(case["settings"]):
            for flag in (True, False):
                path = os.path.join(td, "a%d_%s.npz" % (i, flag))
                before = {k: foreign_value(k) for k in pre}
                np.savez(path, **before)
                kw = save_kwargs({"key": setting.get("key"), "compress": setting.get("compress"), "overwrite": flag})
                how = "save(%s) on an archive holding %s" % (", ".join("%s=%r" % kv for kv in sorted(kw.items())), pre)
                call(how, s.save, path, **kw)
                after = read_archive(path)
                direction, skey = classify(before, after, setting.get("key"))
                if direction is None:
                    raise HarnessError("npz_overwrite_flag: undetermined direction for %r" % (case,))
                note_direction(dirs, flag, direction)
                loaded = call("%s; Standardize(rfilename, key=%r)" % (how, skey), Standardize, path, key=skey)
                compare_transforms(s, loaded, spec, case.get("apply_seed", 0), how)
            labels.append("key=None" if setting.get("key") is None else "key=str")
            labels.append("compress=%s" % setting.get("compress"))
    require(set(dirs) == {True, False} and dirs[True] != dirs[False],
            "overwrite=True and overwrite=False treat the other entries alike ({})", dirs)
    labels.append("overwrite=True-" + dirs[True])
    if any(k.startswith("arr_") for k in pre):
        labels.append("foreign-arr_N")
    return {"nontrivial": True, "labels": sorted(set(labels))}


# ------------------------------------------------------------------ clause: save_without_stats (enumerated)


def enum_no_stats(tier):
    for kind, names in sorted(FNAMES.items()):
        for fname in names:
            for existing in (False, True):
                for norm_var in (True, False):
                    if kind != "npz":
                        yield {"fname": fname, "kind": kind, "existing": existing, "norm_var": norm_var, "kw": {}}
                        continue
                    for key in (None, "k"):
                        for compress in (None, True):
                            for overwrite in (None, True, False):
                                yield {
                                    "fname": fname, "kind": kind, "existing": existing, "norm_var": norm_var,
                                    "kw": {"key": key, "compress": compress, "overwrite": overwrite},
                                }


def check_no_stats(case):
    from pydrobert.speech.post import Standardize

    s = call("Standardize", Standardize, norm_var=bool(case.get("norm_var", True)))
    require(not s.have_stats, "a fresh Standardize reports have_stats")
    kw = save_kwargs(case.get("kw", {}))
    with tempfile.TemporaryDirectory(prefix="verif_c17_") as td:
        path = os.path.join(td, case["fname"])
        if case.get("existing"):
            other = call("Standardize", Standardize)
            call("accumulate", other.accumulate, np.array([[1.0, -2.0], [3.0, 5.0]]))
            call("save by an object with statistics", other.save, path)
        expect_raises(
            "save(%s%s) with no accumulated statistics" % (case["fname"], "".join(", %s=%r" % kv for kv in sorted(kw.items()))),
            ValueError, s.save, path, **kw
        )
    return {"nontrivial": True, "labels": ["kind=" + case["kind"], "existing" if case.get("existing") else "new"]}


def clauses(tier):
    post_ref.ensure_self_test()
    out = []
    for kind, q in (("npy", 250), ("npz", 500), ("raw", 350)):
        out.append(
            Clause(
                "reload_" + kind, check_reload,
                "non-trivial = a negative column sum in the accumulated data, or >= 2 saves on the same path",
                reload_cases(kind), quick=q, thorough=q * 30,
            )
        )
    out.append(
        Clause(
            "npz_overwrite_flag", check_flag,
            "a pre-existing archive with 1-4 foreign entries, saved with overwrite=True and =False under two "
            "(key, compress) settings; every case is non-trivial",
            flag_cases, quick=250, thorough=7500,
        )
    )
    out.append(
        Clause(
            "save_without_stats", check_no_stats,
            "every (target, key, compress, overwrite, pre-existing file) combination, enumerated",
            enumerate=enum_no_stats, enum_name="all_targets", shards=1,
        )
    )
    return out
