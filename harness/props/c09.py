"""C09 - command-line tools store exactly what the library pipeline computes."""
import contextlib
import io
import json
import logging
import os
import sys
import tempfile
import wave

import numpy as np
from hypothesis import strategies as st

from ..core import Clause, Discard, Violation, call, require
from ..strategies import (bank_specs, build_computer, computer_config, floats, gabor_degenerate,
                          gammatone_degenerate, si_specs, stft_specs)

PROPERTY = "C09"
LEVEL = "exploration"
RULE = (
    "Generated (utterance set, container types, computer / pre- / post-processor configuration, config syntax, "
    "--channel / --min-duration / --manifest / --seed / --num-workers) invocations of both tools, in-process; "
    "oracle = reference pipeline assembled from explicitly constructed NumPy objects on the samples that were written."
)
ASSUMPTIONS = [
    "tools are called through pydrobert.speech.command_line (the console scripts are thin wrappers): in-process, except that the second run of the fixed-seed clause is made in a new interpreter with another PYTHONHASHSEED in two cases of three",
    "stored values compared at 2e-4 relative to the matrix maximum (float32 storage, single-precision filter parameters in the torch tool)",
    "value comparison uses deterministic pre-processors (preemphasis, dither with coeff 0); dither > 0 is covered by the fixed-seed metamorphic clause",
    "cases whose reference pipeline itself raises (e.g. variance normalisation of a single frame, deltas of an empty matrix) are outside the domain and discarded",
    "Kaldi wave tables need >= 1 sample; Kaldi stores a 0-row matrix as 0x0, so only the row count is compared there",
    "torch tool: STFT configurations with a filter that has no DFT bin are discarded (the torch module rejects empty filters by design)",
    "--min-duration values are either strictly between representable durations or exactly representable in binary (0.25 s, 0.125 s at 1-2 kHz), where an utterance lasting exactly the minimum must be kept ('min duration of segments to process')",
    "multi-channel input always comes with an explicit --channel (the default for multi-channel input differs between the tools and is not part of the statement)",
]


def _thr():
    from pydrobert.speech import config

    return config.EFFECTIVE_SUPPORT_THRESHOLD


@contextlib.contextmanager
def _quiet():
    old_err, old_out = sys.stderr, sys.stdout
    sys.stderr, sys.stdout = io.StringIO(), io.StringIO()
    try:
        yield
    finally:
        sys.stderr, sys.stdout = old_err, old_out
        for name in list(logging.root.manager.loggerDict) + [sys.argv[0]]:
            lg = logging.getLogger(name)
            if name == sys.argv[0]:
                lg.handlers.clear()


# ----------------------------------------------------------------- reference pipeline


def _pre_objs(pre):
    from pydrobert.speech import pre as P

    out = []
    for p in pre:
        if p["alias"] == "preemphasize":
            out.append(P.Preemphasize(p["coeff"]))
        else:
            out.append(P.Dither(p["coeff"]))
    return out


def _post_objs(post):
    from pydrobert.speech import post as Q

    out = []
    for p in post:
        if p["alias"] == "deltas":
            out.append(Q.Deltas(p["num_deltas"], context_window=p["context_window"]))
        elif p["alias"] == "stack":
            out.append(Q.Stack(p["num_vectors"]))
        else:
            out.append(Q.Standardize(norm_var=p["norm_var"]))
    return out


def _pre_cfg(pre, key):
    out = []
    for i, p in enumerate(pre):
        d = {key: {"preemphasize": ["preemphasize", "preemphasis", "preemph"][i % 3], "dither": "dither"}[p["alias"]], "coeff": p["coeff"]}
        out.append(d)
    return out


def _post_cfg(post, key):
    out = []
    for p in post:
        if p["alias"] == "deltas":
            out.append({key: "deltas", "num_deltas": p["num_deltas"], "context_window": p["context_window"]})
        elif p["alias"] == "stack":
            out.append({key: "stack", "num_vectors": p["num_vectors"]})
        else:
            out.append({key: ["standardize", "cmvn", "unit"][len(out) % 3], "norm_var": p["norm_var"]})
    return out


# utt -> largest |feature| BEFORE post-processing when the torch tool's own computer module produced it (its window and
# filters are single-precision parameters: "to float32 precision" then refers to that scale, which a mean-removing
# post-processor can make much larger than the stored values); 0 otherwise
_PRE_POST_SCALE = {}


def _reference(case, samples_by_utt):
    """utt -> float32 matrix, or raises Discard when the reference pipeline itself fails."""
    _PRE_POST_SCALE.clear()
    comp = None
    if case["comp"] is not None:
        spec = case["comp"]
        if gabor_degenerate(spec["bank"], _thr()) or gammatone_degenerate(spec["bank"], _thr()):
            raise Discard()
        comp = build_computer(spec)
        if spec["kind"] == "stft" and not (1 <= comp.frame_shift <= comp.frame_length):
            raise Discard()
        if spec["kind"] == "stft" and case["tool"] == "torch":
            # the torch STFT module documents a ValueError for a filter without any DFT bin
            D = comp._dft_size if hasattr(comp, "_dft_size") else comp.frame_length
            if any(len(comp.bank.get_truncated_response(i, D)[1]) == 0 for i in range(comp.bank.num_filts)):
                raise Discard()
    pres, posts = _pre_objs(case["pre"]), _post_objs(case["post"])
    out = {}
    for utt, x in samples_by_utt.items():
        x = np.asarray(x, dtype=np.float64)
        try:
            for p in pres:
                x = p.apply(x)
            feats = x[:, None] if comp is None else comp.compute_full(x)
            if comp is not None and posts and case["tool"] == "torch" and np.size(feats):
                # (the module's window and filters are single-precision numbers: its round-off is proportional to the level of
                # the SIGNAL in a frame - a large offset that the filters reject still leaves eps32 * offset * sqrt(frame length))
                span = float(getattr(comp, "frame_length", 0) or 2 * comp.frame_shift)
                _PRE_POST_SCALE[utt] = float(np.max(np.abs(feats))) + 0.125 * float(np.max(np.abs(x))) * span ** 0.5
            for q in posts:
                feats = q.apply(feats)
        except Discard:
            raise
        except Exception:
            raise Discard()
        out[utt] = np.asarray(feats, dtype=np.float32)
    return out


def _write_config(obj, syntax, path_base):
    if syntax == "inline":
        return json.dumps(obj)
    if syntax == "json":
        p = path_base + ".json"
        with open(p, "w") as f:
            json.dump(obj, f)
        return p
    from ruamel.yaml import YAML

    p = path_base + ".yaml"
    with open(p, "w") as f:
        YAML(typ="safe").dump(obj, f)
    return p


# utterance ids: plain, or with prefix / substring relations and different lengths (ids are also the
# keys of npz / hdf5 containers and the lines of the manifest)
_UID_POOLS = (
    ("utt0", "utt1", "utt2", "utt3", "utt4", "utt5"),
    ("utt10", "utt1", "utt", "spk-utt10", "ab", "a"),
    ("a", "ab", "utt", "utt1", "utt10-x", "x-utt"),
    ("rec1.seg1", "rec1.seg2", "spk.a.001", "rec1", "x.pt", "spk.a"),
)


def _uid(case, i):
    return _UID_POOLS[case.get("ids", 0) % len(_UID_POOLS)][i]


def _samples(u, rate_unused=None):
    rng = np.random.Generator(np.random.PCG64(u["seed"]))
    amp = u.get("amp", 3000)
    if u.get("dc"):
        # float samples with a large offset relative to their spread (e.g. an uncalibrated sensor): the
        # features before post-processing then need more than single precision
        return u["dc"] + rng.standard_normal(size=(u["channels"], u["n"]))
    return rng.integers(-amp, amp + 1, size=(u["channels"], u["n"])).astype(np.int16)


def _compare(utt, got, ref, kaldi):
    if kaldi and ref.shape[0] == 0:
        require(got.shape[0] == 0, "{}: stored {} rows, reference 0", utt, got.shape[0])
        return
    require(tuple(got.shape) == tuple(ref.shape), "{}: stored shape {}, library pipeline gives {}", utt, tuple(got.shape), tuple(ref.shape))
    if ref.size == 0:
        return
    g, r = got.astype(np.float64), ref.astype(np.float64)
    require(np.all(np.isfinite(g)), "{}: non-finite stored values", utt)
    tol = 2e-4 * np.abs(r) + 2e-5 * float(np.max(np.abs(r))) + 1e-6 + 32 * 6e-8 * _PRE_POST_SCALE.get(utt, 0.0)
    bad = np.abs(g - r) > tol
    if np.any(bad):
        k = tuple(np.argwhere(bad)[0])
        raise Violation("%s: stored value at %s is %r, library pipeline gives %r" % (utt, k, float(g[k]), float(r[k])))


# ----------------------------------------------------------------- kaldi tool


def _invoke(entry, title, args, fresh):
    """Call a command-line entry point in-process or (fresh = a PYTHONHASHSEED) in a new interpreter."""
    from pydrobert.speech import command_line

    if fresh is None:
        with _quiet():
            return call(title, getattr(command_line, entry), args)
    from ..faults import fresh as fr

    status = fr.run_entry(entry, args, fresh)
    # 0: the entry point returned 0 / None; 3: it returned a non-zero code (its own way of reporting e.g. a skipped
    # utterance); anything else: it raised
    require(status in (0, 3), "{} in a new interpreter (PYTHONHASHSEED={}) died with status {}", title, fresh, status)
    return 0 if status == 0 else 1


def _run_kaldi(case, td, syntax, tag, fresh=None):
    from pydrobert.speech import command_line
    from pydrobert.kaldi import io as kio

    key = case.get("alias_key", "alias")
    rate = case["rate"]
    wavdir = os.path.join(td, "wav")
    os.makedirs(wavdir, exist_ok=True)
    scp = os.path.join(td, "wav.scp")
    with open(scp, "w") as f:
        for i, u in enumerate(case["utts"]):
            p = os.path.join(wavdir, "u%d.wav" % i)
            w = wave.open(p, "wb")
            w.setnchannels(u["channels"])
            w.setsampwidth(2)
            w.setframerate(u.get("rate", rate))
            w.writeframes(np.ascontiguousarray(_samples(u).T).tobytes())
            w.close()
            f.write("%s %s\n" % (_uid(case, i), p))
    ark = os.path.join(td, "feats_%s.ark" % tag)
    args = ["scp:" + scp, "ark:" + ark, _write_config(computer_config(case["comp"], key), syntax, os.path.join(td, "comp_" + tag))]
    if case["channel"] != -1:
        args += ["--channel", str(case["channel"])]
    if case["min_duration"]:
        args += ["--min-duration", repr(case["min_duration"])]
    if case["pre"]:
        args += ["--preprocess", _write_config(_pre_cfg(case["pre"], key), syntax, os.path.join(td, "pre_" + tag))]
    if case["post"]:
        args += ["--postprocess", _write_config(_post_cfg(case["post"], key), syntax, os.path.join(td, "post_" + tag))]
    if case.get("seed") is not None:
        args += ["--seed", str(case["seed"])]
    rc = _invoke("compute_feats_from_kaldi_tables", "compute-feats-from-kaldi-tables", args, fresh)
    stored = {}
    if os.path.exists(ark) and os.path.getsize(ark):
        with kio.open("ark:" + ark, "bm") as t:
            for k, v in t.items():
                require(k not in stored, "utterance {} stored twice", k)
                stored[k] = np.array(v)
    with open(ark, "rb") as f:
        raw = f.read()
    return rc, stored, raw


def _kaldi_expected(case):
    exp = {}
    rate = case["rate"]
    for i, u in enumerate(case["utts"]):
        dur = u["n"] / float(u.get("rate", rate))
        if dur < case["min_duration"]:
            continue
        if u.get("rate", rate) != rate:
            continue
        if case["channel"] >= u["channels"]:
            continue
        ch = case["channel"] if case["channel"] != -1 else 0
        exp[_uid(case, i)] = _samples(u)[ch]
    return exp


def check_kaldi(case):
    exp_samples = _kaldi_expected(case)
    ref = _reference(case, exp_samples)
    with tempfile.TemporaryDirectory(prefix="verif_c09_") as td:
        rc, stored, raw = _run_kaldi(case, td, case["syntax"], "a")
        if exp_samples:
            require(rc == 0, "tool returned {!r} although {} utterances qualify", rc, len(exp_samples))
        require(set(stored) == set(ref), "stored ids {} but expected {}", sorted(stored), sorted(ref))
        for utt in ref:
            _compare(utt, stored[utt], ref[utt], kaldi=True)
        labels = ["syntax=" + case["syntax"], "kind=" + case["comp"]["kind"]]
        if case.get("other_syntax"):
            rc2, stored2, raw2 = _run_kaldi(case, td, case["other_syntax"], "b")
            require(raw2 == raw, "config given as {} and as {} produced different output tables", case["syntax"], case["other_syntax"])
            labels.append("syntax-pair")
    excluded = len(case["utts"]) - len(exp_samples)
    if excluded:
        labels.append("has-excluded-utts")
    if any(u.get("rate", case["rate"]) != case["rate"] for u in case["utts"]):
        labels.append("rate-mismatch")
    if case["pre"]:
        labels.append("pre")
    if case["post"]:
        labels.append("post")
    if any(v.shape[0] == 0 for v in ref.values()):
        labels.append("zero-frame-utt")
    if case["channel"] != -1:
        labels.append("channel")
    nontrivial = len(ref) >= 2 and any(v.shape[0] for v in ref.values()) and bool(case["pre"] or case["post"])
    return {"nontrivial": nontrivial, "labels": labels}


# ----------------------------------------------------------------- torch tool


def _write_container(path_base, kind, arr, utt):
    import torch

    if kind == "npy":
        p = path_base + ".npy"
        np.save(p, arr)  # (keeps a Fortran-ordered array Fortran-ordered)
    elif kind == "npz":
        p = path_base + ".npz"
        np.savez(p, **{utt: arr, "zz_other": np.zeros(3)})
    elif kind == "pt":
        p = path_base + ".pt"
        torch.save(torch.from_numpy(np.ascontiguousarray(arr)), p)
    elif kind == "hdf5":
        import h5py

        p = path_base + ".hdf5"
        with h5py.File(p, "w") as f:
            f.create_dataset("aa_other", data=np.zeros(2))
            f.create_dataset(utt, data=arr)
    elif kind == "wav":
        p = path_base + ".wav"
        w = wave.open(p, "wb")
        w.setnchannels(1)
        w.setsampwidth(2)
        w.setframerate(16000)
        w.writeframes(np.ascontiguousarray(arr.reshape(-1)).astype(np.int16).tobytes())
        w.close()
    else:
        raise Violation("unknown container " + kind)
    return p


def _torch_inputs(case):
    """utt -> (container kind, array as stored, selected 1-D samples)"""
    out = {}
    for i, u in enumerate(case["utts"]):
        s = _samples(u)
        kind = u["container"]
        flat = kind == "wav" or (u["channels"] == 1 and case["channel"] == -1 and u.get("flat", True))
        arr = s[0] if flat else s
        if kind != "wav":
            dt = u.get("dtype", "i16")
            if u.get("dc") and dt == "i16":
                dt = "f64"
            arr = arr.astype({"i16": np.int16, "f32": np.float32, "f64": np.float64}[dt])
            if u.get("fortran") and arr.ndim == 2:
                arr = np.asfortranarray(arr)  # a channels-first array stored in column-major order
        else:
            arr = np.rint(arr).astype(np.int16)
        # the reference pipeline starts from the values as stored
        sel = arr if arr.ndim == 1 else arr[case["channel"] if case["channel"] != -1 else 0]
        out[_uid(case, i)] = (kind, arr, np.asarray(sel, dtype=np.float64))
    return out


def _run_torch(case, td, syntax, tag, seed=None, workers=0, fresh=None):
    import torch
    from pydrobert.speech import command_line

    key = case.get("alias_key", "alias")
    inputs = _torch_inputs(case)
    raw = os.path.join(td, case.get("rawdir") or "raw")
    os.makedirs(raw, exist_ok=True)
    mp = os.path.join(td, "map_%s.txt" % tag)
    with open(mp, "w") as f:
        for j, (utt, (kind, arr, sel)) in enumerate(inputs.items()):
            p = _write_container(os.path.join(raw, utt), kind, arr, utt)
            if case.get("ids", 0) % 2 and j in (1, 2):
                f.write("\n" if j == 1 else "  \n")  # blank lines in the map are skipped by the tool
            f.write("%s %s\n" % (utt, p))
    outdir = os.path.join(td, "out_%s" % tag)
    args = [mp]
    if case["comp"] is not None:
        args.append(_write_config(computer_config(case["comp"], key), syntax, os.path.join(td, "comp_" + tag)))
    args.append(outdir)
    if case["channel"] != -1:
        args += ["--channel", str(case["channel"])]
    if case["pre"]:
        args += ["--preprocess", _write_config(_pre_cfg(case["pre"], key), syntax, os.path.join(td, "pre_" + tag))]
    if case["post"]:
        args += ["--postprocess", _write_config(_post_cfg(case["post"], key), syntax, os.path.join(td, "post_" + tag))]
    if seed is not None:
        args += ["--seed", str(seed)]
    if workers:
        args += ["--num-workers", str(workers)]
    manifest = None
    if case.get("manifest") is not None:
        manifest = os.path.join(td, "manifest_%s.txt" % tag)
        with open(manifest, "w") as f:
            for i in case["manifest"]:
                if i < len(case["utts"]):
                    f.write("%s\n" % _uid(case, i))
        args += ["--manifest", manifest]
    rc = _invoke("signals_to_torch_feat_dir", "signals-to-torch-feat-dir", args, fresh)
    stored = {}
    if os.path.isdir(outdir):
        for fn in sorted(os.listdir(outdir)):
            require(fn.endswith(".pt"), "unexpected file {} in the output directory", fn)
            stored[fn[:-3]] = call("torch.load of the stored file", torch.load, os.path.join(outdir, fn)).numpy()
    listed = None
    if manifest:
        with open(manifest) as f:
            listed = [l.strip() for l in f if l.strip()]
    return rc, stored, listed


def check_torch(case):
    inputs = _torch_inputs(case)
    pre_listed = set(_uid(case, i) for i in (case.get("manifest") or []) if i < len(case["utts"]))
    exp_samples = {u: sel for u, (k, a, sel) in inputs.items() if u not in pre_listed}
    ref = _reference(case, exp_samples)
    with tempfile.TemporaryDirectory(prefix="verif_c09_") as td:
        rc, stored, listed = _run_torch(case, td, case["syntax"], "a", seed=case.get("seed"), workers=case.get("workers", 0))
        require(rc == 0, "tool returned {!r}", rc)
        require(set(stored) == set(ref), "stored ids {} but expected {}", sorted(stored), sorted(ref))
        for utt in ref:
            require(stored[utt].dtype == np.float32, "{}: stored dtype {}", utt, stored[utt].dtype)
            _compare(utt, stored[utt], ref[utt], kaldi=False)
        if listed is not None:
            require(sorted(listed) == sorted(inputs), "manifest lists {} after the run, expected every utterance once: {}", listed, sorted(inputs))
        labels = ["syntax=" + case["syntax"], "kind=" + (case["comp"]["kind"] if case["comp"] else "raw")]
        if (case.get("rawdir") or "raw") != "raw":
            labels.append("path with blanks / tabs")
        if case.get("other_syntax"):
            rc2, stored2, _ = _run_torch(case, td, case["other_syntax"], "b", seed=case.get("seed"), workers=0)
            require(set(stored2) == set(stored), "config syntaxes gave different utterance sets")
            for utt in stored:
                require(np.array_equal(stored[utt], stored2[utt]), "{}: config given as {} and as {} produced different features", utt, case["syntax"], case["other_syntax"])
            labels.append("syntax-pair")
    for u, (k, a, s) in inputs.items():
        labels.append("container=" + k)
    if case.get("workers"):
        labels.append("workers")
    if pre_listed:
        labels.append("manifest-prelisted")
    if case["channel"] != -1:
        labels.append("channel")
    if case["pre"]:
        labels.append("pre")
    if case["post"]:
        labels.append("post")
    if any(v.shape[0] == 0 for v in ref.values()):
        labels.append("zero-frame-utt")
    nontrivial = len(ref) >= 2 and any(v.shape[0] for v in ref.values()) and bool(case["pre"] or case["post"])
    return {"nontrivial": nontrivial, "labels": sorted(set(labels))}


# ----------------------------------------------------------------- fixed seed (dither > 0)


def check_seed(case):
    """With dither > 0 and a fixed --seed two runs are identical; another seed differs."""
    c = dict(case)
    c["pre"] = [{"alias": "dither", "coeff": case["dither"]}] + list(case["pre"])
    c["post"] = []
    if c["comp"] is not None:
        spec = c["comp"]
        if gabor_degenerate(spec["bank"], _thr()) or gammatone_degenerate(spec["bank"], _thr()):
            raise Discard()
        # same domain as the value clauses (e.g. no filter without a DFT bin for the torch tool)
        _reference(dict(c, pre=[], post=[]), {})
    # two invocations of a command are two processes: the second run is (in half of the cases) made in a new
    # interpreter with another string-hash salt; the others stay in-process under different ambient RNG state
    fresh = case.get("fresh")
    how = "" if fresh is None else " (second run in a new interpreter, PYTHONHASHSEED=%d)" % fresh
    with tempfile.TemporaryDirectory(prefix="verif_c09_") as td:
        if case["tool"] == "kaldi":
            c["seed"] = case["seed"]
            rc1, s1, raw1 = _run_kaldi(c, td, "inline", "a")
            np.random.seed(12345)  # the fixed --seed, not ambient RNG state, must decide
            rc2, s2, raw2 = _run_kaldi(c, td, "inline", "b", fresh=fresh)
            require(raw1 == raw2, "two runs with --seed {} differ{}", case["seed"], how)
            c["seed"] = case["seed"] + 1
            rc3, s3, raw3 = _run_kaldi(c, td, "inline", "c")
            # not part of the statement, only a measure of what the case could see: if another seed gives the same
            # bytes the features are insensitive to the dither (e.g. a filter without any response) and the case is trivial
            visible = raw3 != raw1
        else:
            import torch

            rc1, s1, _ = _run_torch(c, td, "inline", "a", seed=case["seed"])
            torch.manual_seed(999)
            rc2, s2, _ = _run_torch(c, td, "inline", "b", seed=case["seed"], workers=case.get("workers", 0), fresh=fresh)
            require(set(s1) == set(s2), "two runs stored different utterance sets")
            for u in s1:
                require(np.array_equal(s1[u], s2[u]), "{}: two runs with --seed {} differ (num-workers {} vs 0){}", u, case["seed"], case.get("workers", 0), how)
            rc3, s3, _ = _run_torch(c, td, "inline", "c", seed=case["seed"] + 1)
            visible = any(not np.array_equal(s1[u], s3[u]) for u in s1)
    return {"nontrivial": visible and len(case["utts"]) >= 2,
            "labels": ["tool=" + case["tool"], "workers" if case.get("workers") else "noworkers",
                       "dither visible in the features" if visible else "dither invisible in the features",
                       "second run in a new interpreter" if fresh is not None else "second run in-process"]}


# ----------------------------------------------------------------- generators

_pre_st = st.lists(st.one_of(
    st.fixed_dictionaries({"alias": st.just("preemphasize"), "coeff": st.one_of(st.just(0.97), floats(-1.0, 1.0))}),
    st.just({"alias": "dither", "coeff": 0.0}),
), max_size=2)
_post_st = st.lists(st.one_of(
    st.fixed_dictionaries({"alias": st.just("deltas"), "num_deltas": st.integers(1, 2), "context_window": st.integers(1, 3)}),
    st.fixed_dictionaries({"alias": st.just("stack"), "num_vectors": st.integers(1, 3)}),
    st.fixed_dictionaries({"alias": st.just("standardize"), "norm_var": st.booleans()}),
), max_size=2)


def _comp_st(rate):
    bank = bank_specs(rates=[rate], max_filts=3, allow_l2="gabor")
    # (a fourth of the computers: centered frames with kaldi_shift, where the left padding depends on the parities of length and shift)
    return st.one_of(stft_specs(bank=bank, max_len=40), stft_specs(bank=bank, max_len=40), si_specs(bank=bank),
                     stft_specs(bank=bank, max_len=40).map(lambda c: dict(c, frame_style="centered", kaldi_shift=True)))


@st.composite
def _kaldi_cases(draw):
    rate = draw(st.sampled_from([1000, 2000]))
    comp = draw(_comp_st(rate))
    L = comp.get("L") or 30
    nutt = draw(st.integers(1, 5))
    maxch = draw(st.sampled_from([1, 1, 2, 3]))
    utts = []
    for i in range(nutt):
        u = {"n": draw(st.one_of(st.integers(1, L), st.integers(L, 6 * L), st.integers(1, 8))),
             "channels": draw(st.integers(1, maxch)) if maxch > 1 else 1,
             "seed": draw(st.integers(0, 2 ** 31 - 1)), "amp": draw(st.sampled_from([3000, 30000, 10]))}
        if draw(st.sampled_from([False] * 7 + [True])):
            u["rate"] = rate * 2
        utts.append(u)
    channel = -1 if maxch == 1 else draw(st.integers(0, maxch - 1))
    syn = draw(st.sampled_from(["inline", "json", "yaml"]))
    min_dur = draw(st.sampled_from([0, 0, 0, 0.0042, 0.0203, 0.25, 0.125]))
    if min_dur in (0.25, 0.125):
        # durations that are exact in binary: an utterance lasting exactly the minimum is not "shorter than" it
        utts[0]["n"] = int(rate * min_dur)
        if len(utts) > 1:
            utts[1]["n"] = int(rate * min_dur) - 1
        for u in utts[2:]:
            u["n"] = int(rate * min_dur) + draw(st.integers(1, 40))
    pre = draw(_pre_st)
    if draw(st.integers(0, 11)) == 0 and comp.get("kind") == "stft":
        # a recording of more than 2**16 samples through a pre-emphasis (the tool pre-processes in place): block-wise
        # implementations only differ beyond their block length
        comp = dict(comp, S=max(comp["S"], 40), L=max(comp["L"] or 0, 40))
        utts[0]["n"] = 70001
        pre = [{"alias": "preemphasize", "coeff": 0.97}] + pre[:1]
    return {
        "tool": "kaldi", "rate": rate, "comp": comp, "pre": pre, "post": draw(_post_st), "utts": utts,
        "channel": channel, "min_duration": min_dur,
        "syntax": syn, "other_syntax": draw(st.sampled_from([None, None, "inline", "json", "yaml"])),
        "alias_key": draw(st.sampled_from(["alias", "name"])), "seed": draw(st.one_of(st.none(), st.integers(0, 1000))),
        "ids": draw(st.integers(0, 3)),
    }


@st.composite
def _torch_cases(draw):
    rate = draw(st.sampled_from([1000, 2000]))
    comp = draw(st.one_of(st.none(), _comp_st(rate), _comp_st(rate), _comp_st(rate)))
    L = (comp or {}).get("L") or 30
    nutt = draw(st.integers(1, 5))
    maxch = draw(st.sampled_from([1, 1, 2, 3]))
    channel = -1 if maxch == 1 else draw(st.integers(0, maxch - 1))
    utts = []
    for i in range(nutt):
        conts = ["npy", "npz", "pt", "hdf5"] + (["wav"] if maxch == 1 else [])
        u = {"n": draw(st.one_of(st.integers(1, L), st.integers(L, 6 * L), st.integers(0, 8))),
             "channels": maxch if channel != -1 else 1,
             "seed": draw(st.integers(0, 2 ** 31 - 1)), "amp": draw(st.sampled_from([3000, 30000, 10])),
             "container": draw(st.sampled_from(conts)), "dtype": draw(st.sampled_from(["i16", "f32", "f64"])),
             "flat": draw(st.booleans()), "fortran": draw(st.sampled_from([False, False, True]))}
        if draw(st.sampled_from([False, True])) and u["container"] != "wav":
            u["dc"] = draw(st.sampled_from([2e4, -5e3, 1e5]))
        if u["container"] == "wav":
            u["n"] = max(u["n"], 1)
        utts.append(u)
    syn = draw(st.sampled_from(["inline", "json", "yaml"]))
    pre, post = draw(_pre_st), draw(_post_st)
    if draw(st.integers(0, 7)) == 0:
        # raw samples with a large offset, then a mean-removing post-processor: the pipeline before the final cast
        # needs double precision, and without a computer module nothing but that cast is single precision
        comp = None
        post = [{"alias": "standardize", "norm_var": draw(st.booleans())}] + post[:1]
        for u in utts:
            if u["container"] != "wav":
                u["dc"] = draw(st.sampled_from([2e4, -5e3, 1e5]))
                u["n"] = max(u["n"], 8)
    return {
        "tool": "torch", "rate": rate, "comp": comp, "pre": pre, "post": post, "utts": utts,
        "channel": channel, "syntax": syn, "other_syntax": draw(st.sampled_from([None, None, None, "inline", "json", "yaml"])),
        "alias_key": draw(st.sampled_from(["alias", "name"])), "seed": draw(st.one_of(st.none(), st.integers(0, 1000))),
        # (ids listed in the manifest: a drawn subset, or the ids that contain other ids as substrings)
        "manifest": draw(st.one_of(st.none(), st.none(), st.lists(st.integers(0, nutt - 1), max_size=2, unique=True),
                                   st.sampled_from([[0], [1], [0, 3], [4], [3, 1]]))),
        "workers": draw(st.sampled_from([0] * 11 + [2])),
        "ids": draw(st.integers(0, 3)),
        # directory holding the signal files: its name may contain blanks (also doubled) and tabs - the map format is
        # "<id> <path>" with everything after the first blank being the path
        "rawdir": draw(st.sampled_from(["raw", "raw", "raw", "disc 1  (copy)", "a b", "tab\there"])),
    }


@st.composite
def _seed_cases(draw):
    tool = draw(st.sampled_from(["kaldi", "torch"]))
    base = draw(_kaldi_cases() if tool == "kaldi" else _torch_cases())
    base["dither"] = draw(st.sampled_from([1.0, 0.5, 20.0]))
    base["seed"] = draw(st.one_of(st.just(0), st.integers(0, 10 ** 6), st.integers(1, 2 ** 31 - 2)))  # 0 is a valid seed
    base["manifest"] = None
    base["other_syntax"] = None
    base["workers"] = draw(st.sampled_from([0] * 5 + [2]))
    for u in base["utts"]:
        u.pop("rate", None)
    base["min_duration"] = 0
    base["fresh"] = draw(st.sampled_from([None, 1, 2]))
    return base


def clauses(tier):
    nt = "non-trivial = >= 2 stored utterances, >= 1 of them with frames, and a non-empty pre- or post-processor list"
    return [
        Clause("kaldi_tool", check_kaldi, "compute-feats-from-kaldi-tables vs the library pipeline; " + nt, _kaldi_cases, quick=140, thorough=4000),
        Clause("torch_tool", check_torch, "signals-to-torch-feat-dir vs the library pipeline; " + nt, _torch_cases, quick=450, thorough=9000),
        Clause("fixed_seed", check_seed, "dither > 0: the same --seed twice gives identical output (second run under different ambient RNG state / worker count); non-trivial = >= 2 utterances and another seed changes the output (the dither is visible in the features)", _seed_cases,
               quick=32, thorough=800, quick_shards=8),
    ]
