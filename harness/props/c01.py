"""C01 - chunked streaming equals whole-signal computation, for every chunking."""
import numpy as np
from hypothesis import strategies as st

from ..core import Clause, Discard, Violation, call, require
from ..oracles import stft_ref
from ..strategies import (bank_specs, build_bank, build_computer, compositions, cut_lists, gabor_degenerate,
                          gammatone_degenerate, make_signal, si_specs, signal_specs, stft_specs, SIGNAL_KINDS)

PROPERTY = "C01"
LEVEL = "exploration"
RULE = (
    "Generated (computer configuration, signal, composition of N into chunk lengths with empty chunks) cases; "
    "oracle = compute_full on a fresh instance of the same configuration (same frame count, values within "
    "round-off, dtype of the chunks). Thorough adds the complete set of compositions of every N <= 10 for every "
    "L <= 8, S <= L, style and kaldi flag, each also with an empty chunk inserted at every position."
)
ASSUMPTIONS = [
    "STFT: frame_shift <= frame_length; SI: frame_shift below the longest filter's one-sided support under both readings (from sample 0 and from the centre), read from the public bank.supports",
    "values compared in the linear domain: STFT rtol 1e-9 (float64) / 2e-6 (float32), SI rtol 1e-7 / 2e-5, of column max plus 1e-12 (1e-6 for float32) of the matrix max",
    "numpy FFT path only (scipy/fftpack not installed)",
    "sampling rate 1 kHz so that 1 ms = 1 sample; frame lengths up to 64 samples",
    "chunks are slices of the signal or (a third of the cases) copies placed in one re-used buffer that the caller overwrites after each call: "
    "what is passed is the same cutting of the signal either way",
]

DTYPES = {"f64": np.float64, "f32": np.float32}


def _thr():
    from pydrobert.speech import config

    return config.EFFECTIVE_SUPPORT_THRESHOLD


def _build_two(spec):
    if gabor_degenerate(spec["bank"], _thr()) or gammatone_degenerate(spec["bank"], _thr()):
        raise Discard()
    bank = call("bank constructor", build_bank, spec["bank"])
    a = call("computer constructor", build_computer, spec, bank)
    b = call("computer constructor", build_computer, spec, bank)
    return a, b


def _tols(spec, dt):
    if spec["kind"] == "stft":
        return (1e-9, 1e-12) if dt == "f64" else (2e-6, 1e-6)
    return (1e-9, 1e-11) if dt == "f64" else (2e-6, 1e-6)


def _run_chunked(comp, x, lens, packet_buffer=False):
    """packet_buffer: the caller copies every chunk into one preallocated buffer, hands the computer a view of it and
    re-uses the buffer afterwards (ordinary streaming I/O) - what was passed stays the same cutting of the signal."""
    outs = []
    pos = 0
    buf = np.empty(max([1] + list(lens)), dtype=x.dtype) if packet_buffer else None
    for n in lens:
        chunk = x[pos : pos + n]
        pos += n
        if buf is not None:
            buf[:n] = chunk
            chunk = buf[:n]
        o = call("compute_chunk(len %d)" % n, comp.compute_chunk, chunk)
        if buf is not None:
            buf[:] = 777.0  # the buffer now belongs to the caller again
        require(o.ndim == 2 and o.shape[1] == comp.num_coeffs, "compute_chunk returned shape {}", o.shape)
        outs.append(o)
    o = call("finalize", comp.finalize)
    require(o.ndim == 2 and o.shape[1] == comp.num_coeffs, "finalize returned shape {}", o.shape)
    outs.append(o)
    return outs


def _compare(spec, dt, outs, full, what):
    got = np.concatenate(outs) if outs else np.zeros((0, full.shape[1]))
    require(
        got.shape == full.shape,
        "{}: streaming gives {} frames, compute_full {} (shape {} vs {})", what, got.shape[0], full.shape[0], got.shape, full.shape,
    )
    for o in outs:
        require(o.dtype == DTYPES[dt], "{}: streamed block dtype {} for {} chunks", what, o.dtype, dt)
    require(full.dtype == DTYPES[dt], "{}: compute_full dtype {} for a {} signal", what, full.dtype, dt)
    rtol, afrac = _tols(spec, dt)
    if spec["kind"] == "stft":
        # both routes transform every frame on its own: each frame is judged at its own level (largest coefficient of the row)
        with np.errstate(over="ignore"):
            lin = np.exp(full.astype(np.float64)) if spec["use_log"] else np.abs(full.astype(np.float64))
        rows = np.max(lin, axis=1) if full.size else np.zeros(0)
        msg = stft_ref.compare_features_per_frame(got, full, spec["use_log"], rows, rtol=rtol, afrac=max(afrac, 1e-9 if dt == "f64" else 1e-5),
                                                  floor=1e-300 if dt == "f64" else 1e-35)
    else:
        msg = stft_ref.compare_features(got, full, spec["use_log"], rtol=rtol, atol_frac=afrac)
    require(msg is None, "{}: streaming differs from compute_full: {}", what, msg)


def _prior(comp, case, dt):
    """The statement holds for 'any computer', not only a brand-new one: optionally the streaming
    instance has already processed (and finalized) an earlier utterance."""
    pr = case.get("prior")
    if not pr:
        return
    y = make_signal(pr["sig"], DTYPES[dt])
    _run_chunked(comp, y, compositions(len(y), pr.get("cuts", [])))
    require(not comp.started, "computer still started after finalize of the earlier utterance")


def _labels(spec, comp, N, lens):
    L, S = comp.frame_length, comp.frame_shift
    if N < S // 2:
        ncls = "N<S//2"
    elif N < L // 2 + 1:
        ncls = "S//2<=N<L//2+1"
    elif N < L:
        ncls = "L//2+1<=N<L"
    elif N < L + S:
        ncls = "L<=N<L+S"
    else:
        ncls = "N>=L+S"
    labs = [ncls, "style=" + comp.frame_style, "bank=" + spec["bank"]["alias"], "kind=" + spec["kind"]]
    if 0 in lens:
        labs.append("empty-chunk")
    if 1 in lens:
        labs.append("single-sample-chunk")
    if spec.get("kaldi_shift") and comp.frame_style == "centered":
        labs.append("kaldi")
    if spec["include_energy"]:
        labs.append("energy")
    return labs


def _nontrivial(comp, lens, nframes):
    S = comp.frame_shift
    nonempty = [n for n in lens if n > 0]
    cuts = np.cumsum(lens)[:-1] if len(lens) > 1 else []
    off_grid = any(c % S for c in cuts)
    return len(nonempty) >= 2 and nframes >= 1 and off_grid


def check_chunked(case):
    spec, dt = case["comp"], case.get("dtype", "f64")
    stream, fresh = _build_two(spec)
    L, S = stream.frame_length, stream.frame_shift
    if spec["kind"] == "stft" and (S < 1 or S > L):
        raise Discard()
    x = make_signal(case["sig"], DTYPES[dt])
    N = len(x)
    lens = compositions(N, case["cuts"])
    full = call("compute_full", fresh.compute_full, x)
    _prior(stream, case, dt)
    pb = bool(case.get("packet_buffer"))
    outs = _run_chunked(stream, x, lens, pb)
    _compare(spec, dt, outs, full, "N=%d L=%d S=%d chunks=%s%s" % (N, L, S, lens, " (chunks passed through one re-used buffer)" if pb else ""))
    return {"nontrivial": _nontrivial(stream, lens, full.shape[0]),
            "labels": _labels(spec, stream, N, lens) + ["dtype=" + dt, "re-used packet buffer" if pb else "slices of the signal"]}


def check_fbf(case):
    from pydrobert.speech.compute import frame_by_frame_calculation

    spec, dt = case["comp"], case.get("dtype", "f64")
    a, fresh = _build_two(spec)
    L, S = a.frame_length, a.frame_shift
    if spec["kind"] == "stft" and (S < 1 or S > L):
        raise Discard()
    x = make_signal(case["sig"], DTYPES[dt])
    full = call("compute_full", fresh.compute_full, x)
    _prior(a, case, dt)
    got = call("frame_by_frame_calculation", frame_by_frame_calculation, a, x, case["chunk_size"])
    rtol, afrac = _tols(spec, dt)
    require(got.shape == full.shape, "chunk_size={}: {} frames vs compute_full {}", case["chunk_size"], got.shape, full.shape)
    msg = stft_ref.compare_features(got, full, spec["use_log"], rtol=rtol, atol_frac=afrac)
    require(msg is None, "frame_by_frame_calculation(chunk_size={}) differs from compute_full: {}", case["chunk_size"], msg)
    require(not a.started, "computer still started after frame_by_frame_calculation")
    nchunks = -(-len(x) // case["chunk_size"])
    return {
        "nontrivial": nchunks >= 2 and full.shape[0] >= 1 and case["chunk_size"] % S != 0,
        "labels": ["kind=" + spec["kind"], "style=" + a.frame_style, "chunks>=2" if nchunks >= 2 else "chunks<2"],
    }


# ---------------------------------------------------------------- exhaustive small sub-space

_ENUM_BANK = {"alias": "tri", "num_filts": 1, "low_hz": 0.0, "high_hz": 500.0, "sampling_rate": 1000,
              "scale": {"alias": "linear", "low_hz": 0.0, "slope_hz": 1.0}, "analytic": False}


def _enum_cases(tier):
    Lmax, Nmax = (8, 10) if tier == "thorough" else (6, 6)
    for L in range(1, Lmax + 1):
        for S in range(1, L + 1):
            for style, kaldi in (("causal", False), ("centered", False), ("centered", True)):
                for N in range(0, Nmax + 1):
                    for mask in range(1 << max(N - 1, 0)):
                        yield {"L": L, "S": S, "style": style, "kaldi": kaldi, "N": N, "mask": mask}


def _lens_from_mask(N, mask):
    if N == 0:
        return []
    lens, cur = [], 1
    for i in range(N - 1):
        if mask >> i & 1:
            lens.append(cur)
            cur = 1
        else:
            cur += 1
    lens.append(cur)
    return lens


_enum_cache = {}


def check_enum(case):
    L, S, N = case["L"], case["S"], case["N"]
    spec = {"kind": "stft", "bank": _ENUM_BANK, "L": L, "S": S, "frame_style": case["style"], "include_energy": True,
            "pad": False, "window": None, "use_log": False, "use_power": False, "kaldi_shift": case["kaldi"]}
    key = (L, S, case["style"], case["kaldi"])
    if key not in _enum_cache:
        _enum_cache.clear()
        _enum_cache[key] = _build_two(spec)
    stream, fresh = _enum_cache[key]
    require(not stream.started and not fresh.started, "computer left started by a previous utterance")
    x = np.arange(1, N + 1, dtype=np.float64) * 0.37 + 0.25 * (np.arange(N) % 3)
    full = call("compute_full", fresh.compute_full, x)
    base = _lens_from_mask(N, case["mask"])
    variants = [base] + [base[:i] + [0] + base[i:] for i in range(len(base) + 1)]
    for vi, lens in enumerate(variants):
        outs = _run_chunked(stream, x, lens, packet_buffer=bool((vi + case["mask"]) % 2))
        _compare(spec, "f64", outs, full, "N=%d L=%d S=%d %s%s chunks=%s" % (N, L, S, case["style"], "+kaldi" if case["kaldi"] else "", lens))
    return {"nontrivial": len(base) >= 2 and full.shape[0] >= 1, "labels": ["style=" + case["style"]]}


# ---------------------------------------------------------------- exhaustive small sub-space, short integration

_ENUM_SI_BANKS = {
    "gabor": {"alias": "gabor", "num_filts": 2, "low_hz": 50.0, "high_hz": 450.0, "sampling_rate": 1000,
              "scale": {"alias": "linear", "low_hz": 0.0, "slope_hz": 1.0}, "erb": False, "scale_l2_norm": False},
    "gammatone": {"alias": "gammatone", "num_filts": 2, "low_hz": 50.0, "high_hz": 450.0, "sampling_rate": 1000,
                  "scale": {"alias": "linear", "low_hz": 0.0, "slope_hz": 1.0}, "erb": False, "scale_l2_norm": False,
                  "order": 4, "max_centered": False},
}


def _enum_si_cases(tier):
    Nmax = 10 if tier == "thorough" else 6
    # N also around the overlap-save block (DFT size 14..19, block = D - M + 1 = 1..6): lengths up to 10 cross it
    for bank in ("gabor", "gammatone"):
        for S in (1, 2, 3):
            for style in ("causal", "centered"):
                for pad in ((False, True) if tier == "thorough" else (False,)):
                    for N in range(0, Nmax + 1):
                        for mask in range(1 << max(N - 1, 0)):
                            yield {"bank": bank, "S": S, "style": style, "pad": pad, "N": N, "mask": mask}


def check_enum_si(case):
    S, N = case["S"], case["N"]
    spec = {"kind": "si", "bank": _ENUM_SI_BANKS[case["bank"]], "S": S, "S_top": False, "frame_style": case["style"],
            "include_energy": True, "pad": case["pad"], "window": None, "use_power": False, "use_log": False}
    key = ("si", case["bank"], S, case["style"], case["pad"])
    if key not in _enum_cache:
        _enum_cache.clear()
        _enum_cache[key] = _build_two(spec)
    stream, fresh = _enum_cache[key]
    require(stream.frame_shift == S, "frame shift {} != {}", stream.frame_shift, S)
    require(not stream.started and not fresh.started, "computer left started by a previous utterance")
    x = np.cos(0.9 * np.arange(N)) + 0.37 * (np.arange(N) % 3) - 0.2
    full = call("compute_full", fresh.compute_full, x)
    base = _lens_from_mask(N, case["mask"])
    variants = [base] + [base[:i] + [0] + base[i:] for i in range(len(base) + 1)]
    for vi, lens in enumerate(variants):
        outs = _run_chunked(stream, x, lens, packet_buffer=bool((vi + case["mask"]) % 2))
        _compare(spec, "f64", outs, full, "SI %s N=%d S=%d %s chunks=%s" % (case["bank"], N, S, case["style"], lens))
    return {"nontrivial": len(base) >= 2 and full.shape[0] >= 1, "labels": ["style=" + case["style"], "bank=" + case["bank"]]}


# ---------------------------------------------------------------- generators


def _n_strategy(L, S, top):
    return st.one_of(
        st.integers(0, max(S // 2, 1)),
        st.integers(S // 2, L // 2 + 1),
        st.integers(L // 2 + 1, L),
        st.integers(L, L + S),
        st.builds(lambda j, r: L + j * S + r, st.integers(0, 5), st.integers(0, S)),
        st.integers(0, top),
    )


@st.composite
def _stft_cases(draw):
    comp = draw(stft_specs(max_len=64))
    L, S = comp["L"], comp["S"]
    n = draw(_n_strategy(L, S, 6 * L))
    cuts = None
    if draw(st.integers(0, 17)) == 0:
        # a size jump inside one stream: a small chunk, then one far beyond anything a work buffer was sized for, then
        # the rest (buffers that grow on demand are rebuilt at that moment)
        n = draw(st.sampled_from([3000, 3000, 5000]))
        a = draw(st.integers(1, 2 * L))
        b = draw(st.integers(a + 1500, n - 1))
        cuts = [a, b] + ([draw(st.integers(b, n))] if draw(st.booleans()) else [])
    return {
        "comp": comp,
        "sig": draw(signal_specs(st.just(n), SIGNAL_KINDS + ["very_loud_quiet"])),
        "cuts": cuts if cuts is not None else draw(cut_lists(n, L, S)),
        "dtype": draw(st.sampled_from(["f64", "f64", "f64", "f32"])),
        "prior": draw(_priors(L, S)),
        "packet_buffer": draw(st.sampled_from([False, False, True])),
    }


def _priors(L, S):
    pn = st.one_of(st.integers(0, max(L // 2, 1)), st.integers(0, L), st.integers(L, 3 * L))
    return st.one_of(st.none(), st.none(), st.builds(
        lambda n, seed, k: {"sig": {"n": n, "kind": "noise", "seed": seed, "scale": 7.0}, "cuts": [c for c in k if c <= n]},
        pn, st.integers(0, 2 ** 20), st.lists(st.integers(0, 3 * L), max_size=2)))


@st.composite
def _si_cases(draw):
    comp = draw(si_specs())
    S = comp["S"]
    # DFT block boundaries depend on the bank; lengths around small multiples of typical blocks too
    n = draw(st.one_of(st.integers(0, 3 * S + 2), st.integers(0, 300),
                       st.builds(lambda k, d: max(0, k + d), st.sampled_from([8, 16, 32, 64, 128, 256, 512]), st.integers(-40, 40))))
    return {
        "comp": comp,
        "sig": draw(signal_specs(st.just(n))),
        "cuts": draw(cut_lists(n, 2 * S, S)),
        "dtype": draw(st.sampled_from(["f64", "f64", "f64", "f32"])),
        "prior": draw(_priors(2 * S, S)),
        "packet_buffer": draw(st.sampled_from([False, False, True])),
    }


@st.composite
def _fbf_cases(draw):
    comp = draw(st.one_of(stft_specs(max_len=32), si_specs()))
    n = draw(st.integers(0, 200))
    return {
        "comp": comp,
        "sig": draw(signal_specs(st.just(n))),
        "chunk_size": draw(st.one_of(st.integers(1, 64), st.integers(1, 8), st.sampled_from([1, 2, 1024]))),
        "dtype": "f64",
        "prior": draw(_priors(16, 4)),
    }


def _known_f01(case):
    return False


def clauses(tier):
    return [
        Clause("stft_chunked", check_chunked,
               "non-trivial = >= 2 non-empty chunks, >= 1 frame and a cut that is not a multiple of frame_shift",
               _stft_cases, quick=700, thorough=30000, fuzz_runs=2500),
        Clause("si_chunked", check_chunked,
               "as stft_chunked, short-integration computers inside the frame-shift precondition",
               _si_cases, quick=300, thorough=12000, fuzz_runs=2500),
        Clause("frame_by_frame", check_fbf,
               "frame_by_frame_calculation with drawn chunk_size vs compute_full; non-trivial = >= 2 chunks, >= 1 frame, chunk_size not a multiple of frame_shift",
               _fbf_cases, quick=150, thorough=6000),
        Clause("all_compositions", check_enum,
               "every composition of N into chunk lengths (and each with one empty chunk at every position) for small L, S, N; non-trivial = >= 2 chunks and >= 1 frame",
               None, enumerate=_enum_cases, enum_name="all_compositions_small"),
        Clause("all_compositions_si", check_enum_si,
               "short-integration computers (Gabor and gammatone bank, shifts 1-3, both styles): every composition of N <= 10 (quick: 6) with an empty chunk at every position; computers reused across cases",
               None, enumerate=_enum_si_cases, enum_name="all_compositions_si_small"),
    ]
