"""C18 - pre-processors apply the documented sample-wise transforms (Preemphasize, Dither).

The torch functional forms named in the anchors are compared with these NumPy classes in C14.
"""
import math

import numpy as np
from hypothesis import strategies as st

from ..core import Clause, Discard, Violation, call, require  # noqa: F401
from ..strategies import floats, log_uniform

PROPERTY = "C18"
LEVEL = "exploration"
RULE = (
    "Generated (length 0..64 weighted to 0/1/2/3, dtype f64/f32/f16/i16/i32/i64, magnitude, coefficient, "
    "in_place, memory layout, seeds). Oracles: the recurrence y[0]=x[0], y[i]=x[i]-c*x[i-1] evaluated in "
    "Python floats (IEEE double) and cast back; metamorphic relations for Dither under numpy.random.seed "
    "(D_c(x)-x == c*D_1(0), D_0 == identity, same seed => same output, other seed => other noise); 6-sigma "
    "bounds on mean/std/correlation of 2e5 draws."
)
ASSUMPTIONS = [
    "signals are one-dimensional (the deprecated axis argument is never passed)",
    "magnitudes are chosen so that the float64 result fits the input dtype (|x| <= max/3 for integers with |coeff| <= 2, <= 1e4 for float16); "
    "int16 / int32 signals holding the most negative and most positive value of the dtype are generated too and kept when every value of the float64 recurrence fits the dtype",
    "Dither coefficients are >= 0 (it is a standard deviation; numpy rejects a negative scale)",
    "unsigned samples (uint16) are values 1000..21000; a pre-emphasis case whose float64 recurrence would be negative somewhere is discarded (a negative value has no unsigned cast)",
    "Dither is given int64 signals below 2**53 only (exactly representable in the documented float64 intermediate); Preemphasize also gets int64 beyond 2**53, judged against the float64 recurrence",
    "for non-float64 dtypes the dithered result may differ from cast(x + c*z) by one quantum of the dtype (the statement does not fix the rounding)",
    "nothing is asserted about the input array after a call with in_place=True (it may or may not have been overwritten)",
    "statistical bounds are 6 sigma on 200000 draws, deterministic per seed",
]

DTYPES = {
    "f8": np.float64,
    "f4": np.float32,
    "f2": np.float16,
    "i2": np.int16,
    "i4": np.int32,
    "i8": np.int64,
    "u2": np.uint16,
}
# largest |x| generated: 3*|x| (|coeff| <= 2) and x + 600 (dither, coeff <= 100) must fit
MAX_MAG = {"f8": 1e6, "f4": 1e6, "f2": 1e4, "i2": 10000, "i4": 7e8, "i8": 2.0 ** 61, "u2": 20000}
KINDS = ["noise", "noise", "noise", "const", "impulse", "ramp", "alternating", "zeros", "extremes"]
LAYOUTS = ["contig", "contig", "contig", "stride2", "reversed", "subclass"]


class _SignalArray(np.ndarray):
    """A user subclass of ndarray (like np.memmap or np.recarray): still an array of samples."""


def _base_signal(n, dt, seed, magfrac, kind):
    """Values as a contiguous array of dtype dt; magnitude = MAX_MAG**magfrac (>= 1)."""
    rng = np.random.Generator(np.random.PCG64(seed))
    dtype = DTYPES[dt]
    mag = float(MAX_MAG[dt]) ** magfrac
    if dt.startswith("f") and magfrac < 0.15:
        mag = 10.0 ** (-3 + 20 * magfrac)  # small float magnitudes 1e-3..1
    if kind == "noise":
        v = rng.uniform(-1, 1, n) * mag
    elif kind == "const":
        v = np.full(n, mag * (1 if seed % 2 else -1))
    elif kind == "impulse":
        v = np.zeros(n)
        if n:
            v[int(rng.integers(0, n))] = mag
    elif kind == "ramp":
        v = np.linspace(-mag, mag, n) if n else np.zeros(0)
    elif kind == "extremes" and dt in ("i2", "i4") and n:
        # the ends of the integer range themselves: most negative value first, most positive last, zeros around them
        # (cases whose recurrence leaves the range are discarded by the caller)
        info = np.iinfo(dtype)
        v = np.zeros(n, dtype=dtype)
        v[-1] = info.max
        v[0] = info.min
        if n >= 5:
            v[n // 2] = info.min if seed % 2 else info.max
        return v
    elif kind == "alternating":
        v = mag * (1 - 2 * (np.arange(n) % 2))
    else:
        v = np.zeros(n)
    if dt.startswith("u"):
        # unsigned samples: magnitudes on top of an offset of 1000, so that noise of 6.5 x 100 still fits below and 3 x above
        return (np.trunc(np.abs(v)) + 1000).astype(dtype)
    if dt.startswith("i"):
        if dt == "i8":
            # keep full 64-bit integer resolution (values beyond 2**53 are not exact in float64)
            ints = [int(t) + int(rng.integers(-1000, 1001)) if t else 0 for t in v.tolist()]
            lim = int(MAX_MAG[dt])
            ints = [max(-lim, min(lim, t)) for t in ints]
            return np.array(ints, dtype=np.int64).reshape(n)
        return np.trunc(v).astype(dtype)
    return v.astype(dtype)


def _with_layout(vals, layout):
    """Return (array to pass, owner) with the requested memory layout holding `vals`."""
    n = len(vals)
    if layout == "stride2":
        base = np.zeros(2 * n, dtype=vals.dtype)
        base[::2] = vals
        base[1::2] = 77
        return base[::2], base
    if layout == "reversed":
        base = np.array(vals[::-1], copy=True, order="C")  # never a view of vals
        return base[::-1], base
    base = np.array(vals, copy=True, order="C")
    if layout == "subclass":
        return base.view(_SignalArray), base
    return base, base


def _cast_back(vals64, dt):
    """float64 python list -> dtype dt ('cast back': IEEE rounding for floats, truncation toward 0 for integers)."""
    if dt[0] in "iu":
        return np.array([int(v) for v in vals64], dtype=DTYPES[dt]).reshape(len(vals64))
    return np.array(vals64, dtype=np.float64).astype(DTYPES[dt]).reshape(len(vals64))


def _lenclass(n):
    return "n=%d" % n if n <= 3 else ("n=4..16" if n <= 16 else "n=17..64")


# ------------------------------------------------------------------ clause: preemphasis recurrence


def _build_pre(case, alias, cls, coeff):
    """The pre-processor by class, by alias or from a configuration mapping (the routes the command-line tools use)."""
    from pydrobert.speech.alias import alias_factory_subclass_from_arg
    from pydrobert.speech.pre import PreProcessor

    route = case.get("route", "class")
    if route == "reassign":
        # built with another coefficient, applied once, then given the coefficient by assignment (`coeff` is a documented
        # public attribute): the next apply uses the current value
        obj = call("%s(other coeff)" % cls.__name__, cls, abs(coeff) * 0.5 + 0.25)
        call("apply before coeff is assigned", obj.apply, np.arange(1.0, 9.0))
        obj.coeff = coeff
        return obj
    if route == "alias":
        return call("PreProcessor.from_alias(%r, coeff)" % alias, PreProcessor.from_alias, alias, coeff)
    if route == "mapping":
        return call("alias_factory_subclass_from_arg(PreProcessor, {'name': %r, 'coeff': ...})" % alias,
                    alias_factory_subclass_from_arg, PreProcessor, {"name": alias, "coeff": coeff})
    return call("%s(coeff)" % cls.__name__, cls, coeff)


def check_preemph(case):
    from pydrobert.speech.pre import Preemphasize

    n, dt, coeff, in_place = case["n"], case["dtype"], float(case["coeff"]), case["in_place"]
    vals = _base_signal(n, dt, case["seed"], case["magfrac"], case["kind"])
    if case.get("swapped"):
        vals = vals.astype(vals.dtype.newbyteorder())  # same values, non-native byte order (big-endian PCM read with np.fromfile)
    x, owner = _with_layout(vals, case["layout"])
    owner_before = owner.copy()
    pre = _build_pre(case, "preemphasize", Preemphasize, coeff)
    if case.get("other_after"):
        # a second live object with another coefficient: parameters belong to the instance
        other = Preemphasize(coeff * 0.5 + 0.3)
        other.apply(np.arange(4.0))
    out = call("Preemphasize.apply", pre.apply, x, in_place=in_place)
    # reference: the recurrence in IEEE double, cast back
    xs = [float(v) for v in vals.tolist()]
    ys = [xs[i] if i == 0 else xs[i] - coeff * xs[i - 1] for i in range(n)]
    if (case["kind"] == "extremes" and dt.startswith("i")) or dt.startswith("u"):
        info = np.iinfo(DTYPES[dt])
        if any(not (info.min <= int(v) <= info.max) for v in ys):
            raise Discard()  # the float64 result does not fit the input dtype (for unsigned samples: it would be negative)
    want = _cast_back(ys, dt)
    require(isinstance(out, np.ndarray), "apply returned {}", type(out).__name__)
    require(out.dtype == vals.dtype, "result dtype {} for input dtype {}", out.dtype, vals.dtype)
    require(out.shape == (n,), "result shape {} for a signal of length {}", out.shape, n)
    if not np.array_equal(out, want):
        i = int(np.flatnonzero(out != want)[0])
        raise Violation(
            "y[%d] = %r, recurrence in float64 cast to %s gives %r (x[%d]=%r, x[%d]=%r, coeff=%r)"
            % (i, out[i].item(), vals.dtype, want[i].item(), i, vals[i].item(), max(i - 1, 0), vals[max(i - 1, 0)].item(), coeff)
        )
    if not in_place:
        require(
            owner.tobytes() == owner_before.tobytes(),
            "input array modified although in_place=False (dtype {}, layout {})", vals.dtype, case["layout"],
        )
    else:
        # memory next to a strided view must never be touched
        if case["layout"] == "stride2":
            require(bool(np.all(owner[1::2] == 77)), "in_place call wrote outside the strided view it was given")
    if case.get("reuse") and n <= 4096 and case["kind"] != "extremes" and not dt.startswith("u"):
        # the same pre-processor object is applied again (streaming chunks of equal size, feeding a result
        # back in): earlier results and the new input must stay what they were
        out_before = out.copy()
        again = call("Preemphasize.apply (second call on the same object)", pre.apply, out, in_place=False)
        require(np.array_equal(out, out_before, equal_nan=True),
                "applying the same object to its own earlier result with in_place=False modified that result")
        vals2 = _base_signal(n, dt, case["seed"] + 1, case["magfrac"], case["kind"])
        third = call("Preemphasize.apply (third call on the same object)", pre.apply, vals2, in_place=False)
        require(np.array_equal(out, out_before, equal_nan=True), "an earlier result changed when the same object was applied to another signal")
        xs2 = [float(v) for v in vals2.tolist()]
        want2 = _cast_back([xs2[i] if i == 0 else xs2[i] - coeff * xs2[i - 1] for i in range(n)], dt)
        require(np.array_equal(third, want2), "second signal through the same object: wrong values")
        if vals.dtype.kind == "f":  # (integer results fed back may leave the dtype's range)
            fb = _cast_back([float(v) if i == 0 else float(v) - coeff * float(out_before[i - 1]) for i, v in enumerate(out_before.tolist())], dt)
            require(np.array_equal(again, fb, equal_nan=True), "result fed back through the same object: wrong values")
    labels = [dt, _lenclass(n), "in_place" if in_place else "copy", case["layout"]]
    if case.get("swapped"):
        labels.append("non-native byte order")
    if case.get("reuse"):
        labels.append("object-reused")
    if in_place and n and np.shares_memory(out, owner):
        labels.append("aliases-input")
    if dt == "i8" and n and max(abs(int(v)) for v in vals.tolist()) > 2 ** 53:
        labels.append("i8>2^53")
    nontrivial = n >= 2 and coeff != 0 and bool(np.any(vals[:-1] != 0))
    return {"nontrivial": nontrivial, "labels": labels}


def _coeffs():
    return st.one_of(floats(-2.0, 2.0), st.sampled_from([0.97, 0.95, 1.0, -1.0, 0.5, 2.0, -2.0, 0.0, 1e-3]))


def _lengths():
    # all small lengths, plus (1 case in ~16) recordings long enough to cross any internal block size
    small = [st.integers(2, 64), st.integers(4, 64), st.integers(0, 64), st.sampled_from([0, 1, 2, 3, 5, 8, 33, 64])]
    return st.one_of(*(small * 4 + [st.sampled_from([4097, 16385, 16386, 32769, 40000, 65537, 100003])]))


def preemph_cases():
    return st.fixed_dictionaries(
        {
            "n": _lengths(),
            "dtype": st.sampled_from(sorted(DTYPES)),
            "seed": st.integers(0, 2 ** 32 - 1),
            "magfrac": st.one_of(floats(0.0, 1.0), st.just(1.0)),
            "kind": st.sampled_from(KINDS),
            "coeff": _coeffs(),
            "in_place": st.booleans(),
            "layout": st.sampled_from(LAYOUTS),
            "reuse": st.sampled_from([False, False, True]),
            "other_after": st.booleans(),
            "swapped": st.sampled_from([False, False, False, True]),
            "route": st.sampled_from(["class", "class", "alias", "mapping", "reassign"]),
        }
    )


def preemph_enum(tier):
    """Every (length 0..8, dtype, in_place, layout) with two coefficients: a complete small grid."""
    for n in range(0, 9):
        for dt in sorted(DTYPES):
            for in_place in (False, True):
                for layout in ("contig", "stride2", "reversed"):
                    for coeff in (0.97, -1.5):
                        yield {"n": n, "dtype": dt, "seed": 1000 + n, "magfrac": 0.5, "kind": "noise",
                               "coeff": coeff, "in_place": in_place, "layout": layout}


# ------------------------------------------------------------------ clause: dither relations


def _quantum(want64, dt):
    if dt == "f8":
        return None
    if dt[0] in "iu":
        return np.ones_like(want64)
    return np.spacing(np.abs(want64).astype(DTYPES[dt])).astype(np.float64)


def check_dither(case):
    from pydrobert.speech.pre import Dither

    n, dt, c, in_place = case["n"], case["dtype"], float(case["coeff"]), case["in_place"]
    seed, seed2 = case["seed"], case["seed2"]
    # leaves room for 6.5 sigma of noise with coeff <= 100; int64 values stay below 2**53 so that the
    # float64 intermediate represents the signal exactly ("coeff 0 is the identity" is then well defined)
    # (the ends of the integer range leave no room for noise: that signal kind is used with coeff 0 only - the identity)
    kind = case["kind"] if (case["kind"] != "extremes" or c == 0.0) else "noise"
    vals = _base_signal(n, dt, case["xseed"], case["magfrac"] * (0.85 if dt == "i8" else 0.9), kind)
    if case.get("swapped"):
        vals = vals.astype(vals.dtype.newbyteorder())
    x, owner = _with_layout(vals, case["layout"])
    owner_before = owner.copy()

    np.random.seed(seed)
    z = call("Dither(1).apply(zeros)", Dither(1.0).apply, np.zeros(n, dtype=np.float64))
    require(isinstance(z, np.ndarray) and z.shape == (n,) and z.dtype == np.float64,
            "Dither(1).apply(zeros({})) returned shape {} dtype {}", n, getattr(z, "shape", None), getattr(z, "dtype", None))
    z = z.copy()

    d = _build_pre(case, "dither", Dither, c)
    if case.get("other_after"):
        other = Dither(c * 3.0 + 1.0)  # a second live object with another coefficient
        del other
    np.random.seed(seed)
    out = call("Dither.apply", d.apply, x, in_place=in_place)
    require(isinstance(out, np.ndarray), "apply returned {}", type(out).__name__)
    require(out.dtype == vals.dtype, "result dtype {} for input dtype {}", out.dtype, vals.dtype)
    require(out.shape == (n,), "result shape {} for a signal of length {}", out.shape, n)
    out = out.copy()
    if not in_place:
        require(owner.tobytes() == owner_before.tobytes(), "input array modified although in_place=False (dtype {})", vals.dtype)
    elif case["layout"] == "stride2":
        require(bool(np.all(owner[1::2] == 77)), "in_place call wrote outside the strided view it was given")

    x64 = vals.astype(np.float64)
    want64 = x64 + c * z
    labels = [dt, _lenclass(n), "in_place" if in_place else "copy", "coeff=0" if c == 0 else ("coeff<=1" if c <= 1 else "coeff>1")]
    if c == 0:
        require(np.array_equal(out, vals), "coeff 0 is not the identity: max |D_0(x)-x| = {}",
                float(np.max(np.abs(out.astype(np.float64) - x64))) if n else 0.0)
    elif n:
        err = np.abs(out.astype(np.float64) - want64)
        if dt == "f8":
            # D_c(x) - x == c * D_1(0): float64 round-off of one addition only
            tol = 1e-9 * np.maximum(1.0, np.maximum(np.abs(x64), np.abs(c * z)))
        else:
            tol = _quantum(want64, dt) * 1.0000001
        bad = np.flatnonzero(err > tol)
        if len(bad):
            i = int(bad[0])
            raise Violation(
                "noise is not coeff * unit noise: D_c(x)[%d] = %r, x = %r, c*D_1(0)[%d] = %r (c=%r, unit draw %r, seed %d, dtype %s)"
                % (i, out[i].item(), vals[i].item(), i, c * z[i], c, z[i], seed, vals.dtype)
            )
    # reproducible: same seed, other in_place setting, fresh copy of the signal
    x2, _ = _with_layout(vals, "contig")
    np.random.seed(seed)
    out2 = call("Dither.apply (repeat)", Dither(c).apply, x2, in_place=not in_place)
    require(np.array_equal(out2, out), "same numpy seed, same signal, in_place={} vs {}: results differ at {} positions",
            in_place, not in_place, int(np.sum(out2 != out)) if out2.shape == out.shape else -1)
    # a different seed gives different noise
    if n >= 8 and c > 0 and seed2 != seed:
        np.random.seed(seed)
        za = call("Dither.apply", Dither(c).apply, np.zeros(n))
        np.random.seed(seed2)
        zb = call("Dither.apply", Dither(c).apply, np.zeros(n))
        require(not np.array_equal(za, zb), "seeds {} and {} give the same noise of length {}", seed, seed2, n)
        require(bool(np.any(za != 0)), "noise of length {} with coeff {} is identically zero", n, c)
        labels.append("two-seeds")
    return {"nontrivial": n >= 1 and c > 0, "labels": labels}


def dither_cases():
    return st.fixed_dictionaries(
        {
            "n": _lengths(),
            "dtype": st.sampled_from(sorted(DTYPES)),
            "xseed": st.integers(0, 2 ** 32 - 1),
            "magfrac": floats(0.0, 1.0),
            "kind": st.sampled_from(KINDS),
            "coeff": st.one_of(st.just(0.0), st.just(1.0), floats(0.01, 2.0), floats(0.01, 2.0), log_uniform(-6, 2), log_uniform(-6, 2)),
            "in_place": st.booleans(),
            "layout": st.sampled_from(LAYOUTS),
            "other_after": st.booleans(),
            "swapped": st.sampled_from([False, False, False, True]),
            "route": st.sampled_from(["class", "class", "alias", "mapping", "reassign"]),
            "seed": st.integers(0, 2 ** 32 - 1),
            "seed2": st.integers(0, 2 ** 32 - 1),
        }
    )


# ------------------------------------------------------------------ clause: dither statistics

N_STATS = 200000


def check_dither_stats(case):
    from pydrobert.speech.pre import Dither

    c = float(case["coeff"])
    rng = np.random.Generator(np.random.PCG64(case["xseed"]))
    kind = case["kind"]
    if kind == "zeros":
        x = np.zeros(N_STATS)
    elif kind == "noise":
        x = rng.standard_normal(N_STATS) * c * case["rel"]
    elif kind == "ramp":
        x = np.linspace(-1, 1, N_STATS) * c * case["rel"]
    else:  # two-level signal: silence followed by a loud part
        x = np.zeros(N_STATS)
        x[N_STATS // 2:] = c * case["rel"]
    x0 = x.copy()
    np.random.seed(case["seed"])
    out = call("Dither.apply", Dither(c).apply, x, in_place=case["in_place"])
    require(out.shape == (N_STATS,) and out.dtype == np.float64, "result shape {} dtype {}", out.shape, out.dtype)
    noise = out - x0
    # subtraction round-off is <= 2**-52 * (rel+7) * c, irrelevant next to 6 sigma / sqrt(N)
    mean, std = float(np.mean(noise)), float(np.std(noise))
    require(abs(mean) <= 6 * c / math.sqrt(N_STATS), "mean of {} noise samples is {!r}, 6-sigma bound {!r} (coeff {!r})",
            N_STATS, mean, 6 * c / math.sqrt(N_STATS), c)
    require(abs(std - c) <= 6 * c / math.sqrt(2 * N_STATS), "std of {} noise samples is {!r}, expected {!r} +- {!r}",
            N_STATS, std, c, 6 * c / math.sqrt(2 * N_STATS))
    labels = [kind]
    if kind != "zeros":
        sx = float(np.std(x0))
        corr = float(np.mean((noise - mean) * (x0 - np.mean(x0)))) / (std * sx)
        require(abs(corr) <= 6 / math.sqrt(N_STATS), "noise is correlated with the signal: r = {!r} over {} samples", corr, N_STATS)
        # spread must not depend on the local signal level either
        h = N_STATS // 2
        s1, s2 = float(np.std(noise[:h])), float(np.std(noise[h:]))
        require(abs(s1 - s2) <= 6 * c * math.sqrt(2.0 / (2 * h)), "noise std differs between signal halves: {!r} vs {!r}", s1, s2)
    return {"nontrivial": c > 0, "labels": labels}


def dither_stats_cases():
    return st.fixed_dictionaries(
        {
            "coeff": st.one_of(st.just(1.0), log_uniform(-3, 3), floats(0.1, 2.0)),
            "seed": st.integers(0, 2 ** 32 - 1),
            "xseed": st.integers(0, 2 ** 32 - 1),
            "kind": st.sampled_from(["zeros", "noise", "ramp", "two-level"]),
            "rel": st.sampled_from([0.1, 1.0, 10.0, 1000.0]),
            "in_place": st.booleans(),
        }
    )


def clauses(tier):
    return [
        Clause(
            "preemph_recurrence", check_preemph,
            "non-trivial = length >= 2, coeff != 0 and a non-zero predecessor sample; distinct by the whole case",
            preemph_cases, quick=2600, thorough=150000,
            enumerate=preemph_enum, enum_name="preemph_grid_n0-8",
        ),
        Clause(
            "dither_relations", check_dither,
            "non-trivial = length >= 1 and coeff > 0; relations: linear in coeff, signal-independent, identity at 0, "
            "reproducible under numpy.random.seed, in_place equivalent, other seed => other noise (n >= 8)",
            dither_cases, quick=1700, thorough=90000,
        ),
        Clause(
            "dither_statistics", check_dither_stats,
            "200000 draws per case; non-trivial = coeff > 0; mean, std, correlation with the signal and per-half std within 6 sigma",
            dither_stats_cases, quick=120, thorough=3600, shards=8,
        ),
    ]
