"""C20 - windows and helper functions follow their documented closed forms."""
import math

import mpmath
import numpy as np
from hypothesis import strategies as st

from ..core import Clause, Discard, HarnessError, Violation, call, require
from ..oracles import windows_ref as ref
from ..strategies import build_window, floats, fragile_widths, log_uniform

PROPERTY = "C20"
LEVEL = "exploration"
RULE = (
    "Windows: every class x width (all of 0..64 in quick / 0..512 in thorough enumerated, 0..4096 generated) x gamma "
    "(order 1..8, peak 0.05..0.98) against own cosine-sum / triangle / gamma-density closed forms. circshift_fourier: "
    "(segment 1..64, start, dft_size None/fitting/larger/wrapping, integer shift incl. negative and beyond the size, "
    "dtype, copy) against the shift theorem checked with a direct-summation inverse DFT. gauss_quant against a 50-digit "
    "mpmath quantile. hertz/angular round trips."
)
ASSUMPTIONS = [
    "window widths are integers >= 0; GammaWindow peak in [0.05, 0.98] (peak = 1 divides by zero), order 1..8",
    "'sum to 1 up to O(1/width)' is judged as |sum - 1| <= 1/width for width >= 3 (largest value on the closed forms: 0.571/width, Blackman width 3)",
    "non-negative means >= -1e-15 (numpy.blackman's end points are -1.4e-17)",
    "for widths 0 and 1 (no area: width - 1 = 0) only length and sign are judged, for every window class",
    "for GammaWindow widths 0 and 1 only length and sign are judged; for order 1 (mode at t=0, no peak to place) only that the samples are a reversed exponential density a*exp(-a*t)",
    "'maximum falls at peak x width' = the arg-max, as a 0-based index or a 1-based sample number, lies within one sample of peak*width (the convention of the repository's own test)",
    "circshift_fourier shifts are integers (a circular shift by a fractional number of samples is not defined by the statement); a segment longer than the DFT wraps and adds onto bins (start+j) mod D",
    "nothing is asserted about the identity of the returned array (copy=False allows, but does not oblige, reuse of the input)",
    "gauss_quant: min(p, 1-p) >= 1e-20 on the float p actually passed; std > 0; monotonicity is asserted for pairs whose tail probabilities differ by >= 1e-9 relative",
    "hertz/angular round trips are judged to 1e-12 relative plus 1e-300 absolute (subnormal inputs lose relative precision)",
    "mpmath (50 digits) erfinv is trusted as the normal quantile; it is cross-checked against ncdf on every case",
]

WINDOWS = ["bartlett", "blackman", "hamming", "hann"]


# ------------------------------------------------------------------ clause: windows


def _wclass(width):
    if width <= 3:
        return "width=%d" % width
    return "width 4..64" if width <= 64 else ("width 65..512" if width <= 512 else "width 513..4096")


def check_window(case):
    width = case["width"]
    alias = case["alias"]
    if alias == "gamma" and case.get("reassign"):
        # order and peak are documented public attributes: the window is built with other values (and used), then
        # they are assigned; "the given order" and "peak" of the statement are the current ones
        ra = case["reassign"]
        win = build_window(dict(case, order=ra["order"], peak=ra["peak"]))
        call("get_impulse_response (before order / peak are assigned)", win.get_impulse_response, max(2, width))
        win.order, win.peak = case["order"], case["peak"]
    elif case.get("alias_pick") is not None and alias != "gamma":
        # the window by one of the documented aliases of its class instead of the class itself (configuration files name
        # windows this way): whatever the alias resolves to must be this window
        from pydrobert.speech.filters import WindowFunction

        names = sorted(type(build_window(case)).aliases)
        name = names[case["alias_pick"] % len(names)]
        win = call("WindowFunction.from_alias(%r)" % name, WindowFunction.from_alias, name)
    else:
        win = build_window(case)
    if case.get("prior") is not None:
        # earlier requests (another width on the same object, the same width on another window class) must not
        # influence this one, and the array returned earlier must not be handed out again and modified
        other = build_window({"alias": WINDOWS[case["prior"] % len(WINDOWS)]})
        first = call("get_impulse_response (earlier request, other class)", other.get_impulse_response, width)
        keep = None if first is None else np.array(first, copy=True)
        call("get_impulse_response (earlier request, same object)", win.get_impulse_response, max(0, width + case["prior"] - 2))
        same_before = call("get_impulse_response (earlier request, same object and width)", win.get_impulse_response, width)
        if isinstance(same_before, np.ndarray) and same_before.size:
            same_before *= 3.0  # a caller may do what it likes with the array it was given
    w = call("%s.get_impulse_response(%d)" % (type(win).__name__, width), win.get_impulse_response, width)
    if case.get("prior") is not None and keep is not None:
        require(np.array_equal(first, keep), "an array returned by an earlier request changed after a later request")
    require(isinstance(w, np.ndarray) and w.ndim == 1, "get_impulse_response({}) returned {} with shape {}", width,
            type(w).__name__, getattr(w, "shape", None))
    require(len(w) == width, "window of width {} has {} samples", width, len(w))
    require(w.dtype.kind == "f", "window dtype is {}", w.dtype)
    if width:
        require(bool(np.all(np.isfinite(w))), "window of width {} contains non-finite samples", width)
        m = float(np.min(w))
        require(m >= -1e-15, "window of width {} has a negative sample {!r} at index {}", width, m, int(np.argmin(w)))
    labels = [alias, _wclass(width), "odd" if width % 2 else "even"]
    if alias == "gamma" and case.get("reassign"):
        labels.append("order/peak assigned after construction")
    if alias != "gamma":
        want = ref.normalised(alias, width)
        if width >= 2:  # a single sample has no area (width - 1 = 0): only length and sign are judged
            tol = 1e-12 * float(np.max(np.abs(want))) + 1e-300
            err = np.abs(w - want)
            i = int(np.argmax(err))
            require(err[i] <= tol, "{} window of width {}: sample {} is {!r}, closed form / area gives {!r}", alias, width, i,
                    float(w[i]), float(want[i]))
        if width >= 3:
            s = float(np.sum(w))
            require(abs(s - 1.0) <= 1.0 / width, "{} window of width {} sums to {!r} (|sum-1| > 1/width)", alias, width, s)
        return {"nontrivial": width >= 3, "labels": labels}
    order, peak = case["order"], case["peak"]
    labels.append("order=%d" % order if order <= 2 else "order>=3")
    if width <= 1:
        return {"nontrivial": False, "labels": labels}
    if order == 1:
        a = float(w[-1])
        require(a > 0, "order-1 gamma window of width {} ends with {!r}", width, a)
        t = np.arange(width - 1, -1, -1, dtype=float)
        want = a * np.exp(-a * t)
        err = np.abs(w - want)
        i = int(np.argmax(err - 1e-9 * want))
        require(err[i] <= 1e-9 * want[i] + 1e-300, "order-1 gamma window of width {} is not a reversed exponential density: "
                "sample {} is {!r}, a*exp(-a*t) with a = last sample = {!r} gives {!r}", width, i, float(w[i]), a, float(want[i]))
        require(int(np.argmax(w)) == width - 1, "order-1 gamma window of width {} peaks at {} instead of the last sample", width,
                int(np.argmax(w)))
        return {"nontrivial": True, "labels": labels}
    want = ref.reversed_gamma(width, order, peak)
    err = np.abs(w - want)
    i = int(np.argmax(err - 1e-9 * want))
    require(err[i] <= 1e-9 * want[i] + 1e-300, "gamma window (order {}, peak {}) of width {}: sample {} is {!r}, reversed gamma density "
            "with alpha=(order-1)/(width-peak*width) gives {!r}", order, peak, width, i, float(w[i]), float(want[i]))
    am = int(np.argmax(w))
    target = peak * width
    ok = abs(am - target) <= 1 + 1e-9 or abs(am + 1 - target) <= 1 + 1e-9
    require(ok, "gamma window (order {}, peak {}) of width {} has its maximum at index {}, expected within one sample of {!r}", order,
            peak, width, am, target)
    return {"nontrivial": True, "labels": labels}


def _widths():
    return st.one_of(st.integers(0, 4096), st.integers(65, 4096), st.integers(0, 64), fragile_widths(4097),
                     st.sampled_from([0, 1, 2, 3, 4, 5, 255, 256, 257, 400, 512, 1024, 4095, 4096]))


def window_cases():
    orders = st.one_of(st.integers(2, 8), st.integers(3, 8), st.integers(1, 8))
    peaks = st.one_of(floats(0.05, 0.98), floats(0.5, 0.98), st.sampled_from([0.5, 0.75, 0.9, 0.25, 0.95, 0.0, 0.0]))  # (0: maximum at the first sample)

    def build(alias, width, order, peak, prior, reassign):
        if alias != "gamma":
            return {"alias": alias, "width": width, "prior": prior, "alias_pick": None if prior is None else (prior + width) % 5}
        return {"alias": "gamma", "width": width, "order": order, "peak": peak, "prior": prior, "reassign": reassign}

    return st.builds(build, st.sampled_from(WINDOWS + ["gamma", "gamma", "gamma"]), _widths(), orders, peaks,
                     st.one_of(st.none(), st.none(), st.integers(0, 4)),
                     st.one_of(st.none(), st.none(), st.none(), st.fixed_dictionaries({"order": st.integers(1, 8), "peak": st.sampled_from([0.5, 0.75, 0.9, 0.25])})))


def window_enum(tier):
    top = 512 if tier == "thorough" else 64
    gammas = [(1, 0.75), (2, 0.5), (4, 0.75), (8, 0.95), (3, 0.3)]
    for width in range(0, top + 1):
        for a in WINDOWS:
            yield {"alias": a, "width": width}
        for o, p in gammas:
            yield {"alias": "gamma", "width": width, "order": o, "peak": p}


# ------------------------------------------------------------------ clause: circshift_fourier

CS_DTYPES = {"c16": np.complex128, "c8": np.complex64, "f8": np.float64}


def _dft_size(case):
    """(argument passed, effective size)."""
    n, start = case["n"], case["start"]
    mode = case["dft"]
    if mode == "none":
        return None, start + n
    if mode == "fit":
        return start + n, start + n
    if mode == "larger":
        D = start + n + 1 + case["extra"]
        return D, D
    if mode == "wrap":
        if start + n < 2:
            return start + n, start + n
        D = 1 + case["extra"] % (start + n - 1)
        return D, D
    raise HarnessError("dft mode %r" % mode)


def check_circshift(case):
    from pydrobert.speech.util import circshift_fourier

    n, start, shift, copy = case["n"], case["start"], case["shift"], case["copy"]
    dtype = CS_DTYPES[case["dtype"]]
    rng = np.random.Generator(np.random.PCG64(case["seed"]))
    seg = rng.standard_normal(n)
    if dtype != np.float64:
        seg = seg + 1j * rng.standard_normal(n)
    if case.get("impulse"):
        seg = np.zeros(n, dtype=seg.dtype)
        seg[case["seed"] % n] = 1
    seg = np.ascontiguousarray(seg.astype(dtype))
    before = seg.copy()
    arg, D = _dft_size(case)
    sh = float(shift) if (case.get("shift_float") and abs(shift) < 2 ** 53) else shift
    kwargs = {"start_idx": start, "copy": copy}
    if case["dft"] != "none":
        kwargs["dft_size"] = arg
    elif case.get("explicit_none"):
        kwargs["dft_size"] = None
    if start == 0 and case.get("omit_start"):
        del kwargs["start_idx"]
    out = call("circshift_fourier(len %d, shift %r, %r)" % (n, sh, kwargs), circshift_fourier, seg, sh, **kwargs)
    require(isinstance(out, np.ndarray) and out.shape == (n,), "result has shape {} for a segment of length {}",
            getattr(out, "shape", None), n)
    if copy:
        require(seg.tobytes() == before.tobytes(), "input segment modified although copy=True")
    x_in = ref.idft(ref.place(before, start, D))
    x_out = ref.idft(ref.place(out, start, D))
    want = np.roll(x_in, shift % D if D else 0)
    scale = max(float(np.max(np.abs(before))), 1e-30)
    err = np.abs(x_out - want)
    t = int(np.argmax(err))
    require(err[t] <= 1e-9 * scale, "inverse DFT (size {}) of the result is not the input's inverse DFT rolled by {}: sample {} is {!r}, "
            "expected {!r}", D, shift, t, complex(x_out[t]), complex(want[t]))
    labels = ["dft=" + case["dft"], case["dtype"], "copy" if copy else "nocopy",
              "shift<0" if shift < 0 else ("shift=0" if shift == 0 else ("shift>=D" if shift >= D else "0<shift<D")),
              "start=0" if start == 0 else "start>0"]
    if not copy and out is seg:
        labels.append("returned-input-object")
    nontrivial = shift % D != 0 and bool(np.any(before != 0)) and D > 1
    return {"nontrivial": nontrivial, "labels": labels}


def circshift_cases():
    return st.fixed_dictionaries(
        {
            "n": st.one_of(st.integers(1, 64), st.integers(1, 8)),
            "start": st.one_of(st.just(0), st.integers(0, 64), st.integers(0, 6)),
            "dft": st.sampled_from(["none", "none", "fit", "larger", "wrap", "wrap"]),
            "extra": st.integers(0, 200),
            # mostly small shifts; one in eight is astronomically larger than the DFT size (only the shift
            # modulo the size matters, and integers stay exact)
            "shift": st.one_of(*([st.integers(-300, 300), st.integers(-8, 8), st.sampled_from([0, 1, -1, 64, 128, -64])] * 2
                                 + [st.integers(10 ** 9, 2 ** 62), st.integers(-(2 ** 62), -(10 ** 9))])),
            "dtype": st.sampled_from(sorted(CS_DTYPES)),
            "copy": st.booleans(),
            "seed": st.integers(0, 2 ** 32 - 1),
        },
        optional={
            "impulse": st.booleans(),
            "shift_float": st.booleans(),
            "explicit_none": st.booleans(),
            "omit_start": st.booleans(),
        },
    )


def circshift_enum(tier):
    for n in (1, 2, 3, 4):
        for start in (0, 1, 2, 5):
            for dft, extra in (("none", 0), ("fit", 0), ("larger", 0), ("larger", 3), ("wrap", 0), ("wrap", 1), ("wrap", 2)):
                for shift in range(-6, 7):
                    for dt in sorted(CS_DTYPES):
                        for copy in (True, False):
                            yield {"n": n, "start": start, "dft": dft, "extra": extra, "shift": shift, "dtype": dt,
                                   "copy": copy, "seed": 17 * n + start}


# ------------------------------------------------------------------ clause: gauss_quant


def _mp_quantile(p):
    """Standard normal quantile of the float p in 50-digit arithmetic, cross-checked against the CDF."""
    with mpmath.workdps(50):
        pm = mpmath.mpf(p)
        x = mpmath.sqrt(2) * mpmath.erfinv(2 * pm - 1)
        back = mpmath.ncdf(x)
        r = min(pm, 1 - pm)
        if abs(back - pm) > r * mpmath.mpf(10) ** -30:
            raise HarnessError("mpmath quantile self-check failed at p=%r" % p)
        return float(x)


def _upper_u(u):
    """Map u in [-20, -0.31] onto [-15.65, -0.31]: 1 - 10^u is a float below 1 only for 10^u >= 1.1e-16."""
    return -0.31 + (u + 0.31) * (15.34 / 19.69)


def _prob(u, side):
    return 10.0 ** u if side == "lower" else 1.0 - 10.0 ** _upper_u(u)


def _tail(p):
    """min(p, 1-p) of a float p; exact (1-p is exact for p >= 0.5)."""
    return p if p <= 0.5 else 1.0 - p


def _tail_label(r):
    return "tail<1e-12" if r < 1e-12 else ("tail<1e-6" if r < 1e-6 else ("tail<1e-2" if r < 1e-2 else "central"))


def check_gauss(case):
    from pydrobert.speech.util import gauss_quant

    p = _prob(case["u"], case["side"])
    r = _tail(p)
    if not (0.0 < p < 1.0) or r < 1e-20:
        raise Discard()
    mu, std = case["mu"], case["std"]
    z = call("gauss_quant(%r)" % p, gauss_quant, p)
    z = float(z)
    want = _mp_quantile(p)
    require(math.isfinite(z), "gauss_quant({!r}) = {!r}", p, z)
    require(abs(z - want) <= 1e-6, "gauss_quant({!r}) = {!r}, normal quantile is {!r} (error {:.3e} standard deviations)", p, z, want,
            abs(z - want))
    q = float(call("gauss_quant(%r, %r, %r)" % (p, mu, std), gauss_quant, p, mu, std))
    require(abs(q - (mu + std * want)) <= 1e-6 * std + 1e-12 * abs(mu),
            "gauss_quant({!r}, mu={!r}, std={!r}) = {!r}, quantile is {!r}", p, mu, std, q, mu + std * want)
    aff = mu + std * z
    require(abs(q - aff) <= 1e-12 * max(abs(mu), abs(std * z), 1e-300),
            "not affine: gauss_quant({!r}, {!r}, {!r}) = {!r} but mu + std*gauss_quant(p) = {!r}", p, mu, std, q, aff)
    # keyword form of the same call
    qk = float(call("gauss_quant(p, mu=, std=)", gauss_quant, p, mu=mu, std=std))
    require(qk == q, "keyword and positional calls differ: {!r} vs {!r}", qk, q)
    return {"nontrivial": True, "labels": [case["side"], _tail_label(r)]}


def gauss_cases():
    return st.fixed_dictionaries(
        {
            "u": st.one_of(floats(-20.0, -0.31), floats(-20.0, -12.0), floats(-3.0, -0.31), st.sampled_from([-20.0, -0.31, -1.0, -2.0, -10.0])),
            "side": st.sampled_from(["lower", "upper"]),
            "mu": st.one_of(st.just(0.0), floats(-1000.0, 1000.0)),
            "std": st.one_of(st.just(1.0), log_uniform(-3, 3)),
        }
    )


def check_gauss_monotone(case):
    from pydrobert.speech.util import gauss_quant

    kind = case["kind"]
    if kind == "straddle":
        pa, pb = 0.5 - 0.5 * 10.0 ** case["u"], 0.5 + 0.5 * 10.0 ** case["v"]
    else:
        u = case["u"] if case["side"] == "lower" else _upper_u(case["u"])
        r1 = 10.0 ** u
        r2 = min(r1 * (1.0 + 10.0 ** case["v"]), 0.5) if kind == "near" else min(10.0 ** (u * case["w"]), 0.5)
        pa, pb = (r1, r2) if case["side"] == "lower" else (1.0 - r2, 1.0 - r1)
        if pa == pb and case["side"] == "upper":
            pa = float(np.nextafter(pb, 0.0))  # gap below the spacing of floats next to 1: take the neighbour
    ra, rb = _tail(pa), _tail(pb)
    if not (0.0 < pa < pb < 1.0) or min(ra, rb) < 1e-20:
        raise Discard()
    # tail probabilities must differ by >= 1e-9 relative (after rounding to floats)
    if kind != "straddle" and abs(ra - rb) < 1e-9 * max(ra, rb):
        raise Discard()
    za = float(call("gauss_quant(%r)" % pa, gauss_quant, pa))
    zb = float(call("gauss_quant(%r)" % pb, gauss_quant, pb))
    require(za < zb, "not increasing: gauss_quant({!r}) = {!r} >= gauss_quant({!r}) = {!r}", pa, za, pb, zb)
    mu, std = case["mu"], case["std"]
    qa = float(call("gauss_quant(%r, mu, std)" % pa, gauss_quant, pa, mu, std))
    qb = float(call("gauss_quant(%r, mu, std)" % pb, gauss_quant, pb, mu, std))
    require(qa <= qb, "decreasing: gauss_quant({!r}, {!r}, {!r}) = {!r} > gauss_quant({!r}, ...) = {!r}", pa, mu, std, qa, pb, qb)
    if std * (zb - za) > 1e-12 * max(abs(mu), std * max(abs(za), abs(zb))):
        # the difference is above the float64 resolution of the affine map
        require(qa < qb, "not increasing: gauss_quant({!r}, {!r}, {!r}) = {!r} >= gauss_quant({!r}, ...) = {!r}", pa, mu, std, qa, pb, qb)
    labels = [kind, case.get("side", "both"), _tail_label(min(ra, rb))]
    return {"nontrivial": True, "labels": labels}


def gauss_monotone_cases():
    mu = st.one_of(st.just(0.0), floats(-1000.0, 1000.0))
    std = st.one_of(st.just(1.0), log_uniform(-3, 3))
    return st.one_of(
        st.fixed_dictionaries({"kind": st.just("near"), "u": floats(-20.0, -0.31), "v": floats(-9.0, -1.0),
                               "side": st.sampled_from(["lower", "upper"]), "mu": mu, "std": std}),
        st.fixed_dictionaries({"kind": st.just("far"), "u": floats(-20.0, -0.31), "w": floats(0.0, 0.99),
                               "side": st.sampled_from(["lower", "upper"]), "mu": mu, "std": std}),
        st.fixed_dictionaries({"kind": st.just("straddle"), "u": floats(-15.0, -0.01), "v": floats(-15.0, -0.01), "mu": mu, "std": std}),
    )


# ------------------------------------------------------------------ clause: hertz <-> angular


def check_hz_angular(case):
    from pydrobert.speech.util import angular_to_hertz, hertz_to_angular

    f, rate = case["f"], case["rate"]
    w = call("hertz_to_angular", hertz_to_angular, f, rate)
    f2 = call("angular_to_hertz", angular_to_hertz, w, rate)
    require(abs(f2 - f) <= 1e-12 * abs(f) + 1e-300, "angular_to_hertz(hertz_to_angular({!r}, {!r})) = {!r}", f, rate, f2)
    # documented closed form: rad/sample = 2 pi Hz / rate
    want = 2.0 * math.pi * f / rate
    require(abs(w - want) <= 1e-12 * abs(want) + 1e-300, "hertz_to_angular({!r}, {!r}) = {!r}, 2*pi*f/rate = {!r}", f, rate, w, want)
    a = case["a"]
    h = call("angular_to_hertz", angular_to_hertz, a, rate)
    a2 = call("hertz_to_angular", hertz_to_angular, h, rate)
    require(abs(a2 - a) <= 1e-12 * abs(a) + 1e-300, "hertz_to_angular(angular_to_hertz({!r}, {!r})) = {!r}", a, rate, a2)
    return {"nontrivial": f != 0 and a != 0, "labels": ["f<0" if f < 0 else ("f=0" if f == 0 else ("f<=nyquist" if f <= rate / 2 else "f>nyquist"))]}


def hz_cases():
    return st.fixed_dictionaries(
        {
            "f": st.one_of(floats(-1e5, 1e5), log_uniform(-6, 5), st.sampled_from([0.0, 1.0, 8000.0, 4000.0])),
            "rate": st.one_of(log_uniform(0, 6), st.sampled_from([8000.0, 16000.0, 44100.0, 1.0])),
            "a": st.one_of(floats(-7.0, 7.0), log_uniform(-9, 1), st.sampled_from([0.0, math.pi, 2 * math.pi, -math.pi])),
        }
    )


def clauses(tier):
    ref.self_test()
    return [
        Clause(
            "window_closed_form", check_window,
            "non-trivial = width >= 3 (cosine/triangle) or width >= 2 (gamma); distinct by (class, width, order, peak)",
            window_cases, quick=2500, thorough=60000,
            enumerate=window_enum, enum_name="window_widths_0-%d_x_9_configs" % (512 if tier == "thorough" else 64),
        ),
        Clause(
            "circshift_fourier", check_circshift,
            "non-trivial = shift not a multiple of the DFT size, non-zero segment, size > 1; labels give dft_size mode (none = documented default)",
            circshift_cases, quick=2500, thorough=60000,
            enumerate=circshift_enum, enum_name="circshift_small_grid",
        ),
        Clause(
            "gauss_quant_accuracy", check_gauss,
            "p = 10^u or 1 - 10^u, u in [-20, -0.31] (discarded when the float p has min(p,1-p) < 1e-20); every case non-trivial",
            gauss_cases, quick=1500, thorough=40000,
        ),
        Clause(
            "gauss_quant_monotone", check_gauss_monotone,
            "ordered pairs of probabilities: neighbours (relative tail gap 1e-9..1e-1), far apart, and straddling 1/2",
            gauss_monotone_cases, quick=2500, thorough=60000,
        ),
        Clause(
            "hertz_angular", check_hz_angular,
            "non-trivial = non-zero frequency and angle",
            hz_cases, quick=1500, thorough=30000, shards=4,
        ),
    ]
