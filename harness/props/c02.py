"""C02 - STFT coefficients equal their documented definition."""
import numpy as np
from hypothesis import strategies as st

from ..core import Clause, Discard, Violation, call, require
from ..oracles import stft_ref
from ..strategies import (log_floor_configs, with_config, bank_specs, build_bank, build_stft, build_window, gabor_degenerate,
                          gammatone_degenerate, make_signal, signal_specs, stft_specs, SIGNAL_KINDS, EXTREME_KINDS)

PROPERTY = "C02"
LEVEL = "exploration"
RULE = (
    "Generated (bank, frame length/shift, style, kaldi_shift, padding, window, log/power/energy, signal) "
    "cases at 1 kHz (1 ms = 1 sample) plus 8/16 kHz configurations; oracle = independent full-spectrum "
    "reference (stft_ref.py) built from get_truncated_response by the documented recipe."
)
ASSUMPTIONS = [
    "numpy FFT path only (scipy/fftpack is not installed in this sandbox)",
    "values compared in the linear domain, every frame at its own scale: |a-b| <= 1e-9*|b| + 1e-12*(all-pass coefficient of that frame); the energy coefficient purely relatively (1e-9)",
    "frame_shift <= frame_length (statement of C01/C02); frame lengths up to 64 samples at 1 kHz, 25 ms at 8/16 kHz",
    "Gabor / L2 gammatone banks with an empty effective support (peak below the threshold) are outside 'every configuration'",
]


def _thr():
    from pydrobert.speech import config

    return config.EFFECTIVE_SUPPORT_THRESHOLD


def _build(spec):
    if gabor_degenerate(spec["bank"], _thr()) or gammatone_degenerate(spec["bank"], _thr()):
        raise Discard()
    bank = call("bank constructor", build_bank, spec["bank"])
    comp = call("STFT constructor", build_stft, spec, bank)
    # another computer around the SAME bank object must not influence this one
    call("STFT constructor (sibling)", build_stft, dict(spec, include_energy=not spec["include_energy"], use_power=not spec["use_power"]), bank)
    return bank, comp


def _window_ref(spec, comp, L):
    """The window the computer was configured with (explicit object, or the documented default)."""
    from pydrobert.speech import filters

    if spec["window"] is not None:
        w = build_window(spec["window"])
    elif comp.frame_style == "causal":
        w = filters.GammaWindow()
    else:
        w = filters.HannWindow()
    return np.asarray(w.get_impulse_response(L), dtype=np.float64)


def check_definition(case):
    from pydrobert.speech import config

    spec = case["comp"]
    bank, comp = _build(spec)
    L, S = comp.frame_length, comp.frame_shift
    if L < 1 or S < 1 or (S > L and spec["kaldi_shift"]):
        raise Discard()  # (with kaldi_shift and a shift above the length compute_full itself rejects most signals)
    style = spec["frame_style"]
    if style is None:
        style = "centered" if bank.is_zero_phase else "causal"
    require(comp.frame_style == style, "frame_style {!r}, documented default {!r}", comp.frame_style, style)
    D = stft_ref.documented_dft_size(L, spec["pad"])
    x = make_signal(case["sig"])
    N = len(x)
    if case["sig"]["kind"] == "huge" and spec["use_power"]:
        raise Discard()  # squares of samples of 2**600 are not representable: the statement's value is not a double
    if case.get("other"):
        # another computer of the same class (different configuration) is built and used first
        ospec = case["other"]
        if not (gabor_degenerate(ospec["bank"], _thr()) or gammatone_degenerate(ospec["bank"], _thr())):
            try:
                oc = build_stft(ospec)
                oc.compute_full(make_signal({"n": 3 * (ospec["L"] or 8), "kind": "noise", "seed": 11, "scale": 2.0}))
                oc.compute_chunk(make_signal({"n": 5, "kind": "noise", "seed": 12, "scale": 2.0}))
            except Exception:  # noqa - only the judged instance matters here
                pass
    pr = case.get("prior")
    if pr:
        # the instance may have been used before (another utterance, whole or in chunks)
        y = make_signal(pr["sig"])
        if pr.get("chunked"):
            h = len(y) // 2
            call("compute_chunk (earlier utterance)", comp.compute_chunk, y[:h])
            call("compute_chunk (earlier utterance)", comp.compute_chunk, y[h:])
            call("finalize (earlier utterance)", comp.finalize)
        else:
            call("compute_full (earlier utterance)", comp.compute_full, y)
    if pr and pr.get("odd_call"):
        # an earlier call that the computer may reject (a 2-D array) or accept (integer samples) is over when it returns
        # or raises: the computer must take the next signal as if nothing had happened
        try:
            comp.compute_full(np.arange(12, dtype=np.int16) if pr["odd_call"] == "int16" else np.zeros((3, 4)))
        except Exception:  # noqa - how such input is treated is not judged here
            pass
    if case.get("serialise"):
        # the computer is pickled / deep-copied (sent to a worker process) before it is used here: serialising an object
        # must not change the object
        import copy
        import pickle

        try:
            pickle.dumps(comp) if case["serialise"] == "pickle" else copy.deepcopy(comp)
        except Exception:  # noqa - whether a computer can be serialised at all is not judged
            pass
    got = call("compute_full", comp.compute_full, x)
    ncoef = bank.num_filts + int(spec["include_energy"])
    require(comp.num_coeffs == ncoef, "num_coeffs {} != {}", comp.num_coeffs, ncoef)
    K = stft_ref.num_frames(N, L, S)
    require(
        got.shape == (K, ncoef),
        "N={} L={} S={}: shape {} but documented (N+S//2)//S = {} frames x {} coefficients",
        N, L, S, got.shape, K, ncoef,
    )
    win = _window_ref(spec, comp, L)
    ref = stft_ref.stft_features(
        x, bank, win, L, S, D, style, spec["kaldi_shift"] and style == "centered",
        spec["use_log"], spec["use_power"], spec["include_energy"], config.LOG_FLOOR_VALUE,
    )
    if not np.all(np.isfinite(ref)):
        raise Discard()
    kal = spec["kaldi_shift"] and style == "centered"
    nat = stft_ref.natural_rows(x, win, L, S, D, style, kal, spec["use_power"])
    floor_note = ""
    if spec["use_log"]:
        # a reference value sitting on the log floor is compared as the floor itself
        pass
    msg = stft_ref.compare_features_per_frame(got, ref, spec["use_log"], nat, energy_col=spec["include_energy"])
    require(msg is None, "N={} L={} S={} D={} style={} kaldi={}: {}", N, L, S, D, style, spec["kaldi_shift"], msg)
    # labels
    wraps = False
    if not bank.is_real:
        for i in range(bank.num_filts):
            b, t = bank.get_truncated_response(i, D)
            if b + len(t) > D // 2 + 1:
                wraps = True
    labels = [
        "D%4=" + str(D % 4), "style=" + style, "bank=" + spec["bank"]["alias"],
        "kaldi" if spec["kaldi_shift"] else "nokaldi",
        "Lodd" if L % 2 else "Leven", "Sodd" if S % 2 else "Seven",
    ]
    if wraps:
        labels.append("complex-past-nyquist")
    if not bank.is_real:
        labels.append("complex")
    if spec["include_energy"]:
        labels.append("energy")
    if K == 0:
        labels.append("noframes")
    if spec["use_log"] and K and np.any(ref <= np.log(config.LOG_FLOOR_VALUE) * (1 - 1e-12)):
        labels.append("hits-log-floor")
    nontrivial = K >= 1 and (wraps or (bank.is_real and spec["include_energy"]) or not bank.is_real)
    return {"nontrivial": nontrivial, "labels": labels}


def check_default_length(case):
    spec = dict(case["comp"])
    spec["L"] = None
    bank, comp = _build(spec)
    L = comp.frame_length
    rate = bank.sampling_rate
    doc = max(
        max(r - l for l, r in bank.supports),
        int(np.ceil(2 * rate / min(r - l for l, r in bank.supports_hz))),
    )
    require(L == doc, "default frame_length {} != documented max(temporal support, 2*rate/bandwidth) = {}", L, doc)
    D = stft_ref.documented_dft_size(L, spec["pad"])
    for i in range(bank.num_filts):
        b, t = call("get_truncated_response", bank.get_truncated_response, i, D)
        H = stft_ref.full_response_from_truncated(b, t, D, bank.is_real)
        require(np.any(np.abs(H) > 0), "filter {} has no non-zero DFT bin at the default frame length (D={})", i, D)
    return {"nontrivial": bank.num_filts >= 2, "labels": ["bank=" + spec["bank"]["alias"]]}


@st.composite
def _cases(draw, rates=(1000,), max_len=64):
    comp = draw(stft_specs(rates=rates, max_len=max_len))
    if draw(st.integers(0, 9)) == 0:
        # sub-sampled analysis: a frame shift above the frame length is a constructible configuration too
        comp["S"] = comp["L"] + draw(st.one_of(st.integers(1, 4), st.integers(1, 2 * comp["L"] + 1)))
        comp["kaldi_shift"] = False
    L = comp["L"]
    n = draw(
        st.one_of(
            st.integers(0, 5 * L + 3),
            st.sampled_from([0, 1, L // 2, L // 2 + 1, L - 1, L, L + 1, L + comp["S"], 2 * L]),
            st.integers(L // 2 + 1, 3 * L + 3),
        )
    )
    if draw(st.integers(0, 24)) == 0:
        n = draw(st.sampled_from([4097, 10000, 16385, 20011]))  # many frames: block-wise implementations differ only here
    sig = draw(signal_specs(st.just(n), SIGNAL_KINDS + EXTREME_KINDS))
    prior = draw(st.one_of(st.none(), st.none(), st.fixed_dictionaries({
        "sig": signal_specs(st.integers(0, 3 * L)), "chunked": st.booleans(),
        "odd_call": st.sampled_from([None, None, "int16", "2d"])})))
    other = draw(st.one_of(st.none(), st.none(), st.none(), stft_specs(rates=rates, max_len=16)))
    return {"comp": comp, "sig": sig, "prior": prior, "config": draw(log_floor_configs()), "other": other,
            "serialise": draw(st.sampled_from([None, None, None, "pickle", "deepcopy"]))}


@st.composite
def _cases_hi(draw):
    rate = draw(st.sampled_from([8000, 16000]))
    bank = bank_specs(rates=[rate], max_filts=5, allow_l2="gabor", kinds=["tri", "fbank", "gabor", "gammatone"])
    comp = draw(stft_specs(bank=bank, max_len=int(0.025 * rate)))
    comp["L"] = draw(st.sampled_from([int(0.025 * rate), int(0.02 * rate), 255, 256, 257]))
    comp["S"] = draw(st.sampled_from([int(0.01 * rate), 100, 1 + comp["L"] // 3]))
    comp["S"] = min(comp["S"], comp["L"])
    n = draw(st.integers(0, 4 * comp["L"]))
    return {"comp": comp, "sig": draw(signal_specs(st.just(n)))}


@st.composite
def _default_cases(draw):
    rate = draw(st.sampled_from([1000, 2000, 8000]))
    bank = bank_specs(rates=[rate], max_filts=4, allow_l2="gabor", min_width_frac=0.3)
    comp = draw(stft_specs(bank=bank, default_len=True))
    if draw(st.integers(0, 9)) == 0:
        # hundreds of narrow filters on a high-rate recording: here the 2*rate/bandwidth term of the default length exceeds
        # the longest temporal support
        comp["bank"] = {"alias": "tri", "num_filts": draw(st.sampled_from([200, 300, 400])), "low_hz": 20.0, "high_hz": None,
                        "sampling_rate": draw(st.sampled_from([44100, 48000, 96000])), "scale": {"alias": draw(st.sampled_from(["mel", "bark"]))},
                        "analytic": False, "numtype": "float"}
    return {"comp": comp}


def clauses(tier):
    return [
        Clause(
            "definition", with_config(check_definition),
            "non-trivial = at least one frame and (complex bank, or real bank with include_energy); distinct by full case",
            _cases, quick=900, thorough=40000,
        ),
        Clause(
            "definition_speech_rates", check_definition,
            "8/16 kHz, 20-25 ms frames (and 255/256/257 samples), 10 ms shifts; same oracle",
            _cases_hi, quick=60, thorough=2500,
        ),
        Clause(
            "default_length", check_default_length,
            "frame_length_ms=None: documented default length, every filter keeps a non-zero bin; non-trivial = >= 2 filters",
            _default_cases, quick=150, thorough=5000,
        ),
    ]
