"""C13 - shorten-compressed NIST SPHERE audio decodes losslessly.

A case is a JSON *program* for the independent encoder in oracles/shorten_enc.py: stream header
fields, then frames (one block per channel) with a drawn command, Rice parameter, signal shape
and optional BLOCKSIZE / BITSHIFT commands.  The samples themselves come from a seeded numpy
Generator inside the check, so a case is a pure function of its JSON.
"""
import io
import os
import tempfile
import wave

import numpy as np
from hypothesis import strategies as st

from .. import core
from ..core import Clause, HarnessError, Violation, require
from ..oracles import shorten_enc as se

PROPERTY = "C13"
LEVEL = "exploration"
RULE = (
    "Generated shorten programs (version, sample type, channels, block size, nmean, maxnlpc, per-block "
    "command / Rice parameter / LPC coefficients / signal shape, BLOCKSIZE and BITSHIFT commands) are encoded by an "
    "independent encoder and must decode to the generated samples. Non-trivial = at least 2 distinct block "
    "commands, at least 2 blocks per channel and one of {QLPC, BITSHIFT>0, BLOCKSIZE, ZERO, multi-channel}."
)
ASSUMPTIONS = [
    "sample types are the ones that occur in SPHERE files: S16HL (type 3), S16LH (5) and lossless mu-law AU2 (8) and, in a seventh of the programs, "
    "shorten's original mu-law type AU1 (0), whose code order is the first row of shorten's ulaw_outward table; "
    "the SPHERE header's sample_byte_format / sample_coding agree with the shorten type",
    "mu-law streams use bit shift 0 only (a non-zero shift needs shorten's lossy 'outward' tables); BITSHIFT 0 is still emitted for them",
    "QLPC is used only in blocks of at least nwrap = max(3, maxnlpc) samples (statement: blocks no shorter than the predictor history); "
    "the other commands are used with any block size >= 1, including blocks shorter than the history",
    "BLOCKSIZE never exceeds the initial block size and is only emitted between frames (before a channel-0 block)",
    "LPC coefficients are 6-bit values -32..31; PCM samples with bit shift s are multiples of 2**s; nskip is 0",
    "residual Rice parameters are raised where needed so that no unary run exceeds 72 bits (cost bound, still crosses 32-bit words)",
    "sample_count in the SPHERE header equals the number of encoded samples per channel",
    "error clause: strict prefixes are taken from streams without extra padding words; arbitrary corruption is not judged",
    "the default dtype is used (mu-law is returned expanded to 16-bit linear as in the shipped test for the ulaw vectors); "
    "mu-law streams are additionally read with dtype uint8, which returns the encoded 8-bit codes themselves (the only way to tell "
    "the codes 0x7F and 0xFF, both linear 0, apart)",
]

CMDS = ("DIFF0", "DIFF1", "DIFF2", "DIFF3", "QLPC", "ZERO")
SIGS = ("noise", "noise", "walk", "sine", "const", "extreme", "zero")
AMPS = (1, 5, 100, 127, 2000, 32767)
FTYPE_NAME = {3: "S16HL", 5: "S16LH", 8: "AU2", 0: "AU1"}

_selftest_done = []


def _self_test():
    if not _selftest_done:
        try:
            se.self_test()
        except AssertionError as e:
            raise HarnessError("shorten encoder self-test failed: %r" % (e,))
        _selftest_done.append(True)


# ------------------------------------------------------------------------------ program -> stream


def _signal(rng, kind, amp, n, t0, lo, hi):
    amp = min(amp, hi)
    if kind == "noise":
        x = rng.integers(-amp, amp + 1, size=n)
    elif kind == "walk":
        x = int(rng.integers(-amp, amp + 1)) + np.cumsum(rng.integers(-3, 4, size=n))
    elif kind == "sine":
        period = float(rng.integers(3, 50))
        x = np.rint(amp * np.sin(2 * np.pi * (t0 + np.arange(n)) / period + float(rng.uniform(0, 6.28))))
    elif kind == "const":
        x = np.full(n, int(rng.integers(-amp, amp + 1)))
    elif kind == "extreme":
        x = rng.choice(np.array([hi, -hi, hi, lo, -hi, hi - 1]), size=n)
    elif kind == "zero":
        x = np.zeros(n)
    else:
        raise HarnessError("unknown signal kind %r" % (kind,))
    return np.clip(np.asarray(x, dtype=np.int64), lo, hi)


def _frames_of(case):
    return list(case.get("loop", [])) * int(case.get("repeat", 1)) + list(case.get("frames", []))


def build(case, extra_steps=None, pad=True, version_byte=None):
    """program -> (file bytes, expected array, labels, stats).  extra_steps: {index: step} raw steps
    inserted before the step with that index (error clause)."""
    _self_test()
    version, ftype, nchan = case["version"], case["ftype"], case["channels"]
    bs0, nmean, maxnlpc = case["blocksize"], case["nmean"], case["maxnlpc"]
    if ftype not in FTYPE_NAME or version not in (1, 2) or not 1 <= nchan <= 8:
        raise HarnessError("bad program header %r" % (case,))
    au2 = ftype in se.ULAW_TYPES  # (either mu-law type)
    lo, hi = (-128, 127) if au2 else (-32768, 32767)
    nwrap = max(3, maxnlpc)
    rng = np.random.Generator(np.random.PCG64(case["seed"]))
    steps, chans = [], [[] for _ in range(nchan)]
    bs, shift = bs0, 0
    labels = {"v%d" % version, FTYPE_NAME[ftype], "ch%d" % nchan, "nmean>0" if nmean else "nmean=0",
              "maxnlpc>0" if maxnlpc else "maxnlpc=0"}
    cmds_seen, nblocks = set(), 0
    feature = nchan > 1
    frames = _frames_of(case)
    for fi, fr in enumerate(frames):
        if fr.get("blocksize") is not None:
            if not 1 <= fr["blocksize"] <= bs0:
                raise HarnessError("block size outside 1..initial")
            bs = fr["blocksize"]
            steps.append(("BLOCKSIZE", bs))
            labels.add("BLOCKSIZE")
            feature = True
            if fi == len(frames) - 1 and bs < bs0:
                labels.add("short-final-block")
        if len(fr["blocks"]) != nchan:
            raise HarnessError("frame with %d blocks for %d channels" % (len(fr["blocks"]), nchan))
        for c, b in enumerate(fr["blocks"]):
            if b.get("bitshift") is not None:
                shift = b["bitshift"]
                if au2 and shift:
                    raise HarnessError("mu-law with a non-zero bit shift is outside the domain")
                steps.append(("BITSHIFT", shift))
                labels.add("BITSHIFT>0" if shift else "BITSHIFT=0")
                if shift:
                    feature = True
                    labels.add("v%d+bitshift" % version)
                if c:
                    labels.add("BITSHIFT-mid-frame")
            cmd = b["cmd"]
            if cmd not in CMDS:
                raise HarnessError("bad block command %r" % (cmd,))
            t0 = len(chans[c])
            x = _signal(rng, "zero" if cmd == "ZERO" else b["sig"], b["amp"], bs, t0, lo, hi)
            if au2:
                s = [se.ulaw_outward(ftype, int(v)) for v in x]
            else:
                s = [(int(v) >> shift) << shift for v in x]
            chans[c] += s
            steps.append((cmd, s, b["resn"], b.get("qlpc")))
            cmds_seen.add(cmd)
            nblocks += 1
            labels.add("cmd:" + cmd)
            if cmd == "QLPC":
                order = len(b.get("qlpc") or [])
                labels.add("qlpc-order:%s" % ("0" if order == 0 else "1-2" if order < 3 else "3-8"))
                feature = True
            elif cmd == "ZERO":
                feature = True
            if bs < nwrap:
                labels.add("block<history")
            if shift and nmean:
                labels.add("bitshift+nmean")
    if extra_steps:
        out = []
        for i, s in enumerate(steps + [None]):
            if i in extra_steps:
                out.append(extra_steps[i])
            if s is not None:
                out.append(s)
        steps = out
    try:
        stream, info = se.encode(
            version, ftype, nchan, bs0, maxnlpc, nmean, steps,
            ulong_slack=case.get("ulong_slack", 0),
            pad_words=case.get("pad_words", 0) if pad else 0,
            pad_fill=case.get("pad_fill", 0),
            version_byte=version_byte,
        )
    except se.EncodeError as e:
        raise HarnessError("program is not encodable: %s (%r)" % (e, core.canon(case)[:300]))
    n = len(chans[0])
    if any(len(ch) != n for ch in chans):
        raise HarnessError("channels of unequal length")
    frames_arr = np.array(chans, dtype=np.int64).T.reshape(n, nchan)
    expected = se.expected_output(ftype, frames_arr)
    codes = frames_arr.astype(np.uint8)
    codes = codes[:, 0] if nchan == 1 else codes
    header = se.sphere_header(ftype, version, nchan, n, case.get("rate", 16000))
    if len(stream) > 16384:
        # the reader takes 16 KiB first and refills its word buffer 1 KiB at a time
        nref = -(-(len(stream) - 16384) // 1024)
        labels.add("refill")
        labels.add("refills:1" if nref == 1 else "refills:2-4" if nref <= 4 else "refills:5+")
    if any(bl.get("maxres", 0) >> bl.get("resn", 0) >= 16 for bl in info["blocks"]):
        labels.add("unary>32bits")
    if any(bl.get("resn") == 0 for bl in info["blocks"]):
        labels.add("resn=0")
    if case.get("pad_words"):
        labels.add("extra-padding")
    if case.get("ulong_slack"):
        labels.add("wide-ulong")
    stats = {
        "nontrivial": len(cmds_seen) >= 2 and nblocks >= 2 * nchan and feature,
        "stream": stream,
        "codes": codes,
        "steps": steps,
        "nsteps": len(steps),
        "info": info,
    }
    return header, stream, expected, labels, stats


def _read(data, via_path, dtype=None):
    from pydrobert.speech.util import read_signal

    if not via_path:
        return read_signal(io.BytesIO(data), dtype=dtype, force_as="sph")
    with tempfile.TemporaryDirectory(prefix="verif_c13_") as td:
        path = os.path.join(td, "utt.sph")
        with open(path, "wb") as f:
            f.write(data)
        return read_signal(path, dtype=dtype)


def _where(e):
    import traceback

    for fr in reversed(traceback.extract_tb(e.__traceback__)):
        if "pydrobert" in fr.filename:
            return " at %s:%d" % (os.path.basename(fr.filename), fr.lineno)
    return ""


def _decode(desc, data, via_path, dtype=None):
    try:
        return _read(data, via_path, dtype)
    except Exception as e:  # noqa
        raise Violation("%s raised %s: %s%s" % (desc, type(e).__name__, str(e)[:160], _where(e)))


def _compare(desc, got, expected):
    require(isinstance(got, np.ndarray), "{} returned {}", desc, type(got).__name__)
    require(
        got.shape == expected.shape,
        "{} returned shape {} for {} encoded samples per channel (expected shape {})",
        desc, got.shape, expected.shape[0], expected.shape,
    )
    if not np.array_equal(got, expected):
        bad = np.argwhere(np.asarray(got) != expected)
        first = tuple(int(i) for i in bad[0])
        raise Violation(
            "%s: %d of %d samples differ; first at index %s: decoded %s, encoded %s"
            % (desc, len(bad), expected.size, first, got[first], expected[first])
        )


# ------------------------------------------------------------------------------ clause: roundtrip


def check_roundtrip(case):
    header, stream, expected, labels, stats = build(case)
    data = header + stream
    got = _decode("read_signal(BytesIO, force_as='sph')", data, False)
    _compare("read_signal(BytesIO, force_as='sph')", got, expected)
    if case.get("via_path"):
        labels.add("via-path")
        got = _decode("read_signal('utt.sph')", data, True)
        _compare("read_signal('utt.sph')", got, expected)
    if case["ftype"] in se.ULAW_TYPES and case.get("raw_codes", True):
        # the samples a mu-law stream encodes are the 8-bit codes themselves (two of them, 0x7F and 0xFF, expand
        # to the same linear value 0): a 1-byte dtype returns them unexpanded
        labels.add("raw-codes")
        codes = stats["codes"]
        if bool((codes == 0x7F).any()):
            labels.add("raw-codes:negative-zero")
        got = _decode("read_signal(BytesIO, dtype=uint8, force_as='sph')", data, False, np.uint8)
        _compare("read_signal(BytesIO, dtype=uint8, force_as='sph')", got, codes)
    return {"nontrivial": stats["nontrivial"], "labels": sorted(labels)}


# ------------------------------------------------------------------------------ clause: vectors

VECTORS = ("123_1pcbe", "123_1pcle", "123_1ulaw", "123_2pcbe", "123_2pcle", "123_2ulaw")


def _vector_cases(tier):
    for name in VECTORS:
        for via in ("stream", "path"):
            yield {"name": name, "via": via}


def check_vector(case):
    _self_test()
    audio = os.path.join(core.REPO_DIR, "tests", "audio")
    sph = os.path.join(audio, case["name"] + "_shn.sph")
    wav = os.path.join(audio, case["name"] + ".wav")
    if not (os.path.isfile(sph) and os.path.isfile(wav)):
        raise HarnessError("reference vector %s is missing from %s" % (case["name"], audio))
    with wave.open(wav, "rb") as w:
        nchan, width, n = w.getnchannels(), w.getsampwidth(), w.getnframes()
        raw = w.readframes(n)
    if width != 2:
        raise HarnessError("reference wav is not 16 bit")
    ref = np.frombuffer(raw, dtype="<i2").astype(np.int16)
    ref = ref if nchan == 1 else ref.reshape(n, nchan)
    with open(sph, "rb") as f:
        data = f.read()
    # harness self-check (independent of the code under test): our reader walks the whole stream, our
    # straightforward decoder reproduces the wav and our encoder reproduces the stream bit for bit
    fields, payload = se.split_sphere(data)
    hdr, cmds = se.parse_stream(payload)
    if hdr["nchan"] != fields["channel_count"] or hdr["nchan"] != nchan or fields["sample_count"] != n:
        raise HarnessError("vector %s: stream header %r disagrees with the SPHERE header" % (case["name"], hdr))
    if case["via"] == "stream":
        mine = se.reference_decode(payload)
        if not np.array_equal(se.expected_output(hdr["ftype"], mine), ref):
            raise HarnessError("oracle decoder does not reproduce %s.wav" % case["name"])
        again, _, _, _ = se.reencode_like(payload, mine)
        used = (hdr["bits_used"] + 40) // 8
        if again[:used] != payload[:used] or len(again) != len(payload):
            raise HarnessError("oracle encoder does not reproduce the stream of %s" % case["name"])
    if case["via"] == "path":
        desc = "read_signal(%s_shn.sph)" % case["name"]
        from pydrobert.speech.util import read_signal

        try:
            got = read_signal(sph)
        except Exception as e:  # noqa
            raise Violation("%s raised %s: %s%s" % (desc, type(e).__name__, str(e)[:160], _where(e)))
    else:
        desc = "read_signal(BytesIO(%s_shn.sph), force_as='sph')" % case["name"]
        got = _decode(desc, data, False)
    _compare(desc, got, ref)
    labels = ["v%d" % hdr["version"], FTYPE_NAME.get(hdr["ftype"], "type%d" % hdr["ftype"]), "ch%d" % nchan, case["via"]]
    labels += sorted(set("cmd:" + c["cmd"] for c in cmds))
    return {"nontrivial": True, "labels": labels}


# ------------------------------------------------------------------------------ clause: errors


def _expect_ioerror(desc, data):
    try:
        got = _read(data, False)
    except IOError:
        return
    except Exception as e:  # noqa
        raise Violation("%s raised %s (%s)%s instead of IOError" % (desc, type(e).__name__, str(e)[:120], _where(e)))
    raise Violation("%s returned %s of shape %s instead of raising IOError" % (desc, type(got).__name__, getattr(got, "shape", None)))


def check_errors(case):
    prog = case["program"]
    kind = case["kind"]
    if kind == "prefix":
        header, stream, expected, labels, stats = build(prog, pad=False)
        # the complete stream must decode (otherwise a prefix "error" proves nothing)
        got = _decode("complete stream", header + stream, False)
        _compare("complete stream", got, expected)
        n = len(stream)
        cuts = case.get("cuts")
        if cuts is None:
            if n <= 2048:
                cuts = range(4, n)
                labels.add("prefix:all-positions")
            else:
                cuts = sorted(set(range(4, n, 37)) | set(range(n - 64, n)))
                labels.add("prefix:sampled-positions")
        else:
            cuts = [4 + (c % (n - 4)) for c in cuts]
        for cut in cuts:
            _expect_ioerror("stream of %d bytes cut after %d bytes" % (n, cut), header + stream[:cut])
        labels.add("prefix")
        return {"nontrivial": len(stats["info"]["blocks"]) >= 2, "labels": sorted(labels)}
    if kind == "badcmd":
        header, stream, expected, labels, stats = build(prog)
        nsteps0 = stats["nsteps"]
        at = case["at"] % (nsteps0 + 1)
        code = case["code"]
        if code <= 8:
            raise HarnessError("command code %d is defined" % code)
        header, stream, _, labels, stats = build(prog, extra_steps={at: ("RAW", code)})
        _expect_ioerror("undefined command code %d as command #%d" % (code, at), header + stream)
        labels.add("badcmd")
        labels.add("badcmd:first" if at == 0 else "badcmd:before-quit" if at == nsteps0 else "badcmd:middle")
        return {"nontrivial": at > 0, "labels": sorted(labels)}
    if kind == "badversion":
        vb = case["version_byte"] & 0xFF
        if vb in (1, 2):
            raise HarnessError("version byte %d is supported" % vb)
        header, stream, _, labels, stats = build(prog, version_byte=vb)
        _expect_ioerror("version byte %d" % vb, header + stream)
        labels.add("badversion")
        labels.add("badversion:0" if vb == 0 else "badversion:3-127" if vb < 128 else "badversion:128-255")
        return {"nontrivial": True, "labels": sorted(labels)}
    raise HarnessError("unknown error case kind %r" % (kind,))


# ------------------------------------------------------------------------------ strategies


def _block(draw, bs, nwrap, maxnlpc, au2, cmds=None, sigs=SIGS, amps=AMPS, allow_shift=True):
    if cmds is None:
        cmds = ["DIFF0", "DIFF1", "DIFF2", "DIFF3", "ZERO"]
        if bs >= nwrap:
            cmds += ["QLPC", "QLPC"]
    cmd = draw(st.sampled_from(cmds))
    b = {"cmd": cmd, "resn": draw(st.integers(0, 14)), "sig": draw(st.sampled_from(sigs)), "amp": draw(st.sampled_from(amps))}
    if cmd == "QLPC":
        order = draw(st.integers(0, maxnlpc))
        b["qlpc"] = draw(st.lists(st.integers(-32, 31), min_size=order, max_size=order))
    if allow_shift and draw(st.integers(0, 5)) == 5:
        b["bitshift"] = 0 if au2 else draw(st.one_of(st.integers(0, 4), st.integers(0, 13)))
    return b


@st.composite
def programs(draw, small=False, allow_long=True):
    version = draw(st.sampled_from([1, 2, 2]))
    ftype = draw(st.sampled_from([3, 5, 8, 3, 5, 8, 0]))
    au2 = ftype in (8, 0)
    nchan = draw(st.sampled_from([1, 1, 2] if small else [1, 1, 2, 2, 3]))
    long = allow_long and not small and draw(st.integers(0, 9)) == 9
    if long:
        bs0 = 256
    elif small:
        bs0 = draw(st.integers(1, 12))
    else:
        bs0 = draw(st.one_of(st.integers(1, 64), st.sampled_from([1, 2, 3, 4, 8, 9, 16, 32, 64])))
    nmean = draw(st.integers(0, 4))
    maxnlpc = draw(st.integers(0, 8))
    if maxnlpc > bs0 and draw(st.booleans()):
        maxnlpc = min(maxnlpc, bs0)
    nwrap = max(3, maxnlpc)
    case = {
        "version": version, "ftype": ftype, "channels": nchan, "blocksize": bs0, "nmean": nmean,
        "maxnlpc": maxnlpc, "seed": draw(st.integers(0, 2 ** 32 - 1)),
    }
    if long:
        nloop = draw(st.integers(1, 2))
        loop = []
        for _ in range(nloop):
            loop.append({"blocks": [
                _block(draw, bs0, nwrap, maxnlpc, au2, cmds=["DIFF0", "DIFF1", "DIFF2", "DIFF3", "QLPC"],
                       sigs=("noise",), amps=(32767, 9000), allow_shift=False)
                for _ in range(nchan)]})
        per_block = 235 if au2 else 540
        target = draw(st.sampled_from([19500, 16400, 17500, 25000]))
        need = -(-target // (per_block * nloop * nchan))
        case["loop"] = loop
        case["repeat"] = need + draw(st.integers(0, 6 if target > 20000 else 1))
    frames = []
    bs = bs0
    nframes = draw(st.integers(0 if long else 1, 3 if small else 6))
    for i in range(nframes):
        fr = {}
        if draw(st.integers(0, 4)) == 4 or (i == nframes - 1 and i > 0 and draw(st.integers(0, 2)) == 2):
            bs = draw(st.integers(1, bs0))
            fr["blocksize"] = bs
        fr["blocks"] = [_block(draw, bs, nwrap, maxnlpc, au2) for _ in range(nchan)]
        frames.append(fr)
    case["frames"] = frames
    if draw(st.integers(0, 3)) == 3:
        case["pad_words"] = draw(st.integers(1, 2))
    pf = draw(st.sampled_from([0, 0, 1, 2]))
    if pf:
        case["pad_fill"] = pf
    if draw(st.integers(0, 4)) == 4:
        case["ulong_slack"] = draw(st.integers(1, 3))
    if draw(st.integers(0, 5)) == 5:
        case["via_path"] = True
    return case


def _error_cases():
    small = programs(small=True)
    return st.one_of(
        st.fixed_dictionaries({"kind": st.just("prefix"), "program": small}),
        st.fixed_dictionaries({"kind": st.just("prefix"), "program": programs(),
                               "cuts": st.lists(st.integers(0, 10 ** 6), min_size=1, max_size=10)}),
        st.fixed_dictionaries({"kind": st.just("badcmd"), "program": programs(allow_long=False),
                               "at": st.integers(0, 40),
                               "code": st.one_of(st.integers(9, 12), st.integers(9, 200))}),
        st.fixed_dictionaries({"kind": st.just("badversion"), "program": small,
                               "version_byte": st.one_of(st.sampled_from([0, 3, 4, 255, 128, 127]), st.integers(3, 255))}),
    )


def _fmt(case):
    # keep evidence samples short
    s = core.canon(case)
    return case if len(s) < 1500 else {"truncated": s[:1500]}


def clauses(tier):
    return [
        Clause(
            "roundtrip", check_roundtrip,
            "encode a drawn program, decode with read_signal (stream, and a .sph path for ~1/6), compare all samples and "
            "the shape; non-trivial = >= 2 distinct block commands, >= 2 blocks per channel and one of "
            "{QLPC, BITSHIFT>0, BLOCKSIZE, ZERO, multi-channel}; distinct by the whole program",
            programs, quick=1100, thorough=120000, sample_fmt=_fmt,
         fuzz_runs=2500),
        Clause(
            "vectors", check_vector,
            "the six sph2pipe vectors, from a stream and from a path, equal their reference WAVs (the oracle encoder and "
            "an oracle decoder are first checked against the same vectors bit for bit)",
            enumerate=_vector_cases, enum_name="sph2pipe_vectors", shards=1,
        ),
        Clause(
            "errors", check_errors,
            "streams cut after every byte position behind the magic (all positions for streams <= 2 KiB), an undefined "
            "command code at any command position, version bytes outside {1,2}: IOError and nothing else; "
            "non-trivial = at least two blocks before the cut / code not at the first command",
            _error_cases, quick=400, thorough=24000, sample_fmt=_fmt,
         fuzz_runs=2500),
    ]
