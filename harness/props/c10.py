"""C10 - signals-to-torch-feat-dir survives kill/resume and parallelism unchanged (fault enumeration)."""
import json
import os
import shutil
import tempfile

import numpy as np
from hypothesis import strategies as st

from ..core import Clause, Discard, HarnessError, Violation, require
from ..faults import cli_crash
from ..strategies import computer_config

PROPERTY = "C10"
LEVEL = "fault_enumeration"
RULE = (
    "Crash points (utterance index k x phase {before_save, mid_write, after_save, after_manifest, in_compute} x kind {hard kill = _exit "
    "without flushing, soft = KeyboardInterrupt}) injected into a forked run of the tool with --manifest, --seed and dither > 0; "
    "invariants on the manifest/files right after the crash and on the directory after re-running the same command, against an "
    "uninterrupted reference run. Thorough enumerates the complete grid for 1..5 utterances x workers {0,2} and generated "
    "histories of up to three successive crashes."
)
ASSUMPTIONS = [
    "a hard kill is modelled as os._exit at a Python-level point (before / in the middle of / after a file write, after a manifest print): user-space buffers are lost as under SIGKILL; a kill inside a write() system call (torn manifest line) cannot be injected from Python",
    "DataLoader worker interleavings are perturbed by drawn per-item delays, not enumerated",
    "torch.save output is byte-deterministic for equal tensors (checked by the worker-count clause itself)",
    "the tool runs in a fork()ed child of a process that has torch imported (the console script is a thin wrapper); in half of the "
    "generated cases and a third of the grid the invocations after the interruption (resume, other worker counts) run in a new "
    "interpreter with another PYTHONHASHSEED instead - a re-invocation shares no string-hash salt, ids or imports with the interrupted one",
]

SENTINEL = b"sentinel-not-a-torch-file"

_COMP = {
    "kind": "stft", "L": 16, "S": 8, "frame_style": "centered", "include_energy": True, "pad": True, "window": None,
    "use_log": True, "use_power": False, "kaldi_shift": False,
    "bank": {"alias": "fbank", "num_filts": 3, "low_hz": 0.0, "high_hz": 500.0, "sampling_rate": 1000, "analytic": False},
}


# a short-integration computer (stateful across chunks): what one utterance leaves behind must not reach the next
_COMP_SI = {
    "kind": "si", "S": 8, "S_top": False, "frame_style": "causal", "include_energy": True, "pad": False, "window": None,
    "use_log": True, "use_power": False,
    "bank": {"alias": "gabor", "num_filts": 3, "low_hz": 20.0, "high_hz": 500.0, "sampling_rate": 1000, "scale": {"alias": "mel"},
             "erb": False, "scale_l2_norm": False},
}


# utterance ids of different lengths with prefix / substring relations in both map orders
_ID_POOLS = (
    ("utt10", "utt1", "utt", "spk-utt10", "ab", "a"),
    ("a", "ab", "utt", "utt1", "utt10-x", "x-utt"),
    ("utt0", "utt1-", "utt2-a", "utt3", "utt4-", "utt5"),
    ("rec1.seg1", "rec1.seg2", "spk.a.001", "rec1", "x.pt", "spk.a"),
)


def _utt_id(case, i):
    pool = _ID_POOLS[case.get("ids", 0) % len(_ID_POOLS)]
    return pool[i] if i < len(pool) else "u%04d" % i  # (maps with hundreds of utterances)


# --file-prefix / --file-suffix of the case being judged (set by _setup; one case at a time per process)
_NAMING = {"prefix": "", "suffix": ".pt"}


def _fname(utt):
    return _NAMING["prefix"] + utt + _NAMING["suffix"]


def _setup(case, td):
    _NAMING["prefix"] = case.get("file_prefix") or ""
    _NAMING["suffix"] = case.get("file_suffix") or ".pt"
    raw = os.path.join(td, "raw")
    os.makedirs(raw)
    mp = os.path.join(td, "map.txt")
    ids = []
    archive = {}
    with open(mp, "w") as f:
        for i, n in enumerate(case["lens"]):
            rng = np.random.Generator(np.random.PCG64(case["seed"] * 1000 + i))
            sig = (rng.standard_normal(n) * 100).astype(np.float32)
            utt = _utt_id(case, i)
            if case.get("archive"):
                # all signals in one numpy archive, keyed by utterance id (every map line names the same path)
                p = os.path.join(raw, "all.npz")
                archive[utt] = sig
            else:
                p = os.path.join(raw, "s%d.npy" % i)
                np.save(p, sig)
            ids.append(utt)
            if case.get("blank_lines") and i in (1, 3):
                f.write("\n" if i == 1 else "   \n")  # the map parser skips empty / whitespace-only lines
            f.write("%s %s\n" % (utt, p))
    if archive:
        np.savez(os.path.join(raw, "all.npz"), **archive)
    return mp, ids


def _args(case, mp, outdir, manifest, workers):
    a = [mp]
    if case.get("comp", True):
        a.append(json.dumps(computer_config(_COMP_SI if case["comp"] == "si" else _COMP)))
    a += [outdir, "--seed", str(case["seed"]), "--preprocess", json.dumps([{"alias": "dither", "coeff": case["dither"]}])]
    if manifest:
        a += ["--manifest", manifest]
    if workers:
        a += ["--num-workers", str(workers)]
    if case.get("file_prefix"):
        a += ["--file-prefix", case["file_prefix"]]
    if case.get("file_suffix"):
        a += ["--file-suffix", case["file_suffix"]]
    return a


def _dir_bytes(d):
    out = {}
    if os.path.isdir(d):
        for fn in sorted(os.listdir(d)):
            with open(os.path.join(d, fn), "rb") as f:
                data = f.read()
            # files are keyed as <id>.pt whatever --file-prefix / --file-suffix are in force
            pre, suf = _NAMING["prefix"], _NAMING["suffix"]
            if fn.startswith(pre) and fn.endswith(suf) and len(fn) > len(pre) + len(suf):
                fn = fn[len(pre):len(fn) - len(suf)] + ".pt"
            else:
                fn = "unexpected file name: " + fn
            out[fn] = data
    return out


def _read_manifest(path):
    if not os.path.exists(path):
        return []
    with open(path) as f:
        return [l.strip() for l in f if l.strip()]


def _reference(case, td, mp, workers=0):
    out = os.path.join(td, "ref_w%d" % workers)
    r = cli_crash.run_tool(_args(case, mp, out, os.path.join(td, "ref_manifest_w%d.txt" % workers), workers))
    if r["status"] != 0:
        raise Violation("uninterrupted run with --num-workers %d failed: status %r %s" % (workers, r["status"], r["reports"][-1:] if r["reports"] else ""))
    return _dir_bytes(out), _read_manifest(os.path.join(td, "ref_manifest_w%d.txt" % workers))


def _check_after_crash(tag, ref, outdir, manifest, completed_before, ids):
    """I1 + I2."""
    import io

    import torch

    listed = _read_manifest(manifest)
    require(len(listed) == len(set(listed)), "{}: manifest lists an utterance twice: {}", tag, listed)
    files = _dir_bytes(outdir)
    for utt in listed:
        require(utt in ids, "{}: manifest lists unknown id {!r}", tag, utt)
        fn = utt + ".pt"
        require(fn in files, "{}: manifest lists {} but its feature file does not exist", tag, utt)
        try:
            t = torch.load(io.BytesIO(files[fn]))
        except Exception as e:  # noqa
            raise Violation("%s: manifest lists %s but its file cannot be loaded (%s)" % (tag, utt, type(e).__name__))
        rt = torch.load(io.BytesIO(ref[fn]))
        require(t.shape == rt.shape and torch.equal(t, rt), "{}: manifest lists {} but its file differs from the uninterrupted run", tag, utt)
    missing = [u for u in completed_before if u not in listed]
    require(not missing, "{}: utterances {} were completely written before the interruption but are not in the manifest {}", tag, missing, listed)
    return listed


def _one_crash_run(case, crash, mp, outdir, manifest, workers, delays):
    r = cli_crash.run_tool(_args(case, mp, outdir, manifest, workers), crash=crash, delays=delays)
    crashed = any(rep.get("crashed") for rep in r["reports"])
    if not crashed and r["status"] != 0:
        raise Violation("run failed without an injected fault: status %r %s" % (r["status"], r["reports"][-1:]))
    return r, crashed


def check_crash(case):
    """Single crash, then two resumes (plain; and with listed files replaced by a sentinel)."""
    workers = case.get("workers", 0)
    crash = case["crash"]
    with tempfile.TemporaryDirectory(prefix="verif_c10_") as td:
        mp, ids = _setup(case, td)
        ref, ref_listed = _reference(case, td, mp)
        require(sorted(ref) == sorted(u + ".pt" for u in ids), "reference run stored {}", sorted(ref))
        require(sorted(ref_listed) == sorted(ids), "reference run's manifest lists {}", ref_listed)
        out = os.path.join(td, "out")
        manifest = os.path.join(td, "manifest.txt")
        r, crashed = _one_crash_run(case, crash, mp, out, manifest, workers, case.get("delays"))
        k = crash["k"]
        tag = "crash(k=%d,%s,%s,workers=%d)" % (k, crash["phase"], crash["kind"], workers)
        if crashed:
            completed = ids[:k]  # the k-th utterance is the one in flight
            listed = _check_after_crash(tag, ref, out, manifest, completed, ids)
        else:
            listed = _read_manifest(manifest)
        # --- I5: resume with listed files replaced by a sentinel (in a copy of the state)
        out5 = os.path.join(td, "out5")
        man5 = os.path.join(td, "manifest5.txt")
        if os.path.isdir(out):
            shutil.copytree(out, out5)
        if os.path.exists(manifest):
            shutil.copy(manifest, man5)
        for utt in listed:
            with open(os.path.join(out5, _fname(utt)), "wb") as f:
                f.write(SENTINEL)
        # a resume is a new invocation: optionally a new interpreter with its own string-hash salt (fork()ed children
        # share the harness's), so that per-process values leaking into the per-utterance seeds are seen
        fresh = case.get("fresh")
        r5 = cli_crash.run_tool(_args(case, mp, out5, man5, 0), fresh=None if fresh is None else 7 * fresh + 1)
        require(r5["status"] == 0, "{}: resume failed: status {!r} {}", tag, r5["status"], r5["reports"][-1:])
        files5 = _dir_bytes(out5)
        for utt in listed:
            require(files5.get(utt + ".pt") == SENTINEL, "{}: {} was already listed in the manifest but its file was rewritten on resume", tag, utt)
        recomputed = set(r5["items"])
        require(not (recomputed & set(listed)), "{}: utterances {} were already listed but were recomputed on resume", tag, sorted(recomputed & set(listed)))
        for utt in ids:
            if utt not in listed:
                require(files5.get(utt + ".pt") == ref[utt + ".pt"], "{}: after resume {} differs from the uninterrupted run (same --seed, dither {})", tag, utt, case["dither"])
        # --- I3: plain resume of the same command
        r3 = cli_crash.run_tool(_args(case, mp, out, manifest, workers), fresh=None if fresh is None else 7 * fresh + 2)
        require(r3["status"] == 0, "{}: re-running the same command failed: status {!r} {}", tag, r3["status"], r3["reports"][-1:])
        files = _dir_bytes(out)
        require(sorted(files) == sorted(ref), "{}: after resume the directory holds {}, an uninterrupted run {}", tag, sorted(files), sorted(ref))
        for fn in ref:
            require(files[fn] == ref[fn], "{}: after resume {} differs from the uninterrupted run (same --seed, dither {})", tag, fn, case["dither"])
        final = _read_manifest(manifest)
        require(sorted(final) == sorted(ids) and len(final) == len(ids), "{}: after resume the manifest lists {}, expected each of {} once", tag, final, ids)
    labels = ["phase=" + crash["phase"], "kind=" + crash["kind"], "workers=%d" % workers, "n=%d" % len(ids)]
    if not crashed:
        labels.append("crash-point-not-reached")
    labels.append("resume in a new interpreter" if fresh is not None else "resume in a fork")
    if case.get("file_prefix") or case.get("file_suffix"):
        labels.append("--file-prefix / --file-suffix")
    return {"nontrivial": crashed and k >= 1 and case["dither"] > 0, "labels": labels}


def check_history(case):
    """Up to three successive crashes, then a clean run."""
    workers = case.get("workers", 0)
    if workers and any(c["phase"] == "in_compute" for c in case["crashes"]):
        raise Discard()  # with worker processes the items are computed (and counted) outside the main process
    with tempfile.TemporaryDirectory(prefix="verif_c10_") as td:
        mp, ids = _setup(case, td)
        ref, _ = _reference(case, td, mp)
        out = os.path.join(td, "out")
        manifest = os.path.join(td, "manifest.txt")
        ncrashed = 0
        for j, crash in enumerate(case["crashes"]):
            before = _read_manifest(manifest)
            todo = [u for u in ids if u not in before]
            r, crashed = _one_crash_run(case, crash, mp, out, manifest, workers, case.get("delays"))
            tag = "crash %d (k=%d,%s,%s,workers=%d)" % (j, crash["k"], crash["phase"], crash["kind"], workers)
            if crashed:
                ncrashed += 1
                completed = before + todo[: crash["k"]]
                _check_after_crash(tag, ref, out, manifest, completed, ids)
            else:
                break
        fresh = case.get("fresh")
        r3 = cli_crash.run_tool(_args(case, mp, out, manifest, workers), fresh=None if fresh is None else 7 * fresh + 3)
        require(r3["status"] == 0, "final clean run failed: status {!r} {}", r3["status"], r3["reports"][-1:])
        files = _dir_bytes(out)
        require(sorted(files) == sorted(ref), "after the final run the directory holds {}, an uninterrupted run {}", sorted(files), sorted(ref))
        for fn in ref:
            require(files[fn] == ref[fn], "after {} crashes and a clean run {} differs from the uninterrupted run", ncrashed, fn)
        final = _read_manifest(manifest)
        require(sorted(final) == sorted(ids) and len(final) == len(ids), "final manifest lists {}, expected each of {} once", final, ids)
    return {"nontrivial": ncrashed >= 2, "labels": ["crashes=%d" % ncrashed, "workers=%d" % workers]}


def check_workers(case):
    """I4: the output does not depend on --num-workers."""
    with tempfile.TemporaryDirectory(prefix="verif_c10_") as td:
        mp, ids = _setup(case, td)
        ref, _ = _reference(case, td, mp, 0)
        for w in case["worker_counts"]:
            out = os.path.join(td, "w%d" % w)
            man = os.path.join(td, "man_w%d.txt" % w)
            r = cli_crash.run_tool(_args(case, mp, out, man if case.get("with_manifest") else None, w), delays=case.get("delays"),
                                   fresh=None if case.get("fresh") is None else 7 * case["fresh"] + w)
            require(r["status"] == 0, "--num-workers {} failed: status {!r} {}", w, r["status"], r["reports"][-1:])
            files = _dir_bytes(out)
            require(sorted(files) == sorted(ref), "--num-workers {} stored {}, --num-workers 0 stored {}", w, sorted(files), sorted(ref))
            for fn in ref:
                require(files[fn] == ref[fn], "--num-workers {}: {} differs from --num-workers 0 (seed {}, dither {})", w, fn, case["seed"], case["dither"])
            if case.get("with_manifest"):
                listed = _read_manifest(man)
                require(sorted(listed) == sorted(ids), "--num-workers {}: manifest lists {}", w, listed)
    return {"nontrivial": len(ids) >= 2 and case["dither"] > 0, "labels": ["workers=" + ",".join(map(str, case["worker_counts"])), "n=%d" % len(ids)]}


# ----------------------------------------------------------------------------- generation


def _base():
    return dict(
        lens=st.lists(st.sampled_from([40, 25, 9, 3, 64, 17]), min_size=1, max_size=5),
        seed=st.one_of(st.just(0), st.integers(0, 10 ** 6), st.integers(1, 10 ** 6)),
        blank_lines=st.booleans(),
        ids=st.integers(0, 3),
        dither=st.sampled_from([1.0, 1.0, 5.0]),
        comp=st.sampled_from([True, True, False, "si"]),
        # later invocations (resume / other worker count) in a new interpreter with another PYTHONHASHSEED, or in a fork
        fresh=st.sampled_from([None, None, 1, 2]),
        archive=st.sampled_from([False, False, True]),
        file_prefix=st.sampled_from([None, None, None, "feat_", "x."]),
        file_suffix=st.sampled_from([None, None, None, ".feat", ".pt.bak"]),
    )


@st.composite
def _crash_cases(draw):
    case = {k: draw(v) for k, v in _base().items()}
    n = len(case["lens"])
    case["crash"] = {"k": draw(st.integers(0, n - 1)), "phase": draw(st.sampled_from(cli_crash.PHASES)), "kind": draw(st.sampled_from(cli_crash.KINDS))}
    case["workers"] = draw(st.sampled_from([0, 0, 0, 0, 2]))
    if case["crash"]["phase"] == "in_compute":
        case["workers"] = 0  # the fault is injected in the process that computes the item
    if case["workers"]:
        case["delays"] = draw(st.lists(st.integers(0, 15), min_size=1, max_size=5))
    return case


@st.composite
def _history_cases(draw):
    case = {k: draw(v) for k, v in _base().items()}
    case["lens"] = draw(st.lists(st.sampled_from([40, 25, 9, 64]), min_size=3, max_size=6))
    n = len(case["lens"])
    case["crashes"] = draw(st.lists(st.fixed_dictionaries({
        "k": st.integers(0, 2), "phase": st.sampled_from(cli_crash.PHASES), "kind": st.sampled_from(cli_crash.KINDS)}), min_size=2, max_size=3))
    case["workers"] = draw(st.sampled_from([0, 0, 0, 2]))
    if any(c["phase"] == "in_compute" for c in case["crashes"]):
        case["workers"] = 0  # the fault is injected in the process that computes the item
    return case


@st.composite
def _worker_cases(draw):
    case = {k: draw(v) for k, v in _base().items()}
    case["lens"] = draw(st.lists(st.sampled_from([40, 25, 9, 64, 3]), min_size=2, max_size=6))
    case["worker_counts"] = draw(st.sampled_from([[1], [2], [3], [1, 2], [2, 3]]))
    case["delays"] = draw(st.lists(st.integers(0, 20), min_size=1, max_size=6))
    case["with_manifest"] = draw(st.booleans())
    return case


def _grid(tier):
    """Complete crash-point grid: utterance counts 1..5 x k x phase x kind x workers {0,2} (thorough);
    quick enumerates 3 utterances with workers 0."""
    nmax = 5 if tier == "thorough" else 3
    counts = range(1, nmax + 1) if tier == "thorough" else (3,)
    lens_all = [40, 25, 9, 64, 17]
    # a stateful (short-integration) computer and utterances too short for a frame right before longer ones: the resumed
    # process starts the following utterance with a computer that never saw the short one
    for k, phase, kind, w in ((2, "before_save", "hard", 0), (4, "after_save", "soft", 0), (2, "before_save", "hard", 2)):
        yield {"lens": [40, 3, 25, 3, 17], "seed": 7, "ids": 0, "blank_lines": False, "dither": 1.0, "comp": "si",
               "crash": {"k": k, "phase": phase, "kind": kind}, "workers": w, "delays": [5, 0] if w else None, "fresh": None,
               "file_prefix": None, "file_suffix": None}
    # a map of 261 utterances interrupted late: few are pending on resume, at positions beyond 256 (any per-utterance
    # bookkeeping held in a narrow integer type wraps there)
    for k, phase, kind, fresh in ((258, "before_save", "hard", None), (260, "after_save", "soft", 3)) if tier == "thorough" else ((258, "before_save", "hard", None),):
        yield {"lens": [9, 3, 17] * 87, "seed": 5, "ids": 1, "blank_lines": False, "dither": 1.0, "comp": False,
               "crash": {"k": k, "phase": phase, "kind": kind}, "workers": 0, "delays": None, "fresh": fresh, "file_prefix": None, "file_suffix": None}
    for n in counts:
        for k in range(n):
            for phase in cli_crash.PHASES:
                for kind in cli_crash.KINDS:
                    for w in ((0, 2) if tier == "thorough" else ((0, 2) if (kind == "hard" and phase in ("before_save", "after_save") and k >= 1) else (0,))):
                        if w and phase == "in_compute":
                            continue
                        yield {"lens": lens_all[:n], "seed": (11 + n) * (k % 2), "ids": n + k, "blank_lines": bool((n + k) % 2), "dither": 1.0, "comp": "si" if (k + cli_crash.PHASES.index(phase)) % 5 == 3 else True,
                               "crash": {"k": k, "phase": phase, "kind": kind}, "workers": w, "delays": [7, 0, 3] if w else None,
                               "fresh": (1 + k) if (k + cli_crash.PHASES.index(phase) + (kind == "soft")) % 3 == 0 else None,
                               "archive": (k + cli_crash.PHASES.index(phase) + (kind == "hard")) % 3 == 1,
                               "file_prefix": "feat_" if (k + cli_crash.PHASES.index(phase)) % 4 == 1 else None,
                               "file_suffix": ".feat" if (k + 2 * cli_crash.PHASES.index(phase) + (kind == "hard")) % 4 == 2 else None}


def clauses(tier):
    return [
        Clause("crash_resume", check_crash,
               "generated single crash point; non-trivial = the fault fired with a non-empty completed prefix (k >= 1) and dither on",
               _crash_cases, quick=12, thorough=600, shrink_quick=False, quick_shards=6, quick_enum_shards=12,
               enumerate=_grid, enum_name="crash_point_grid"),
        Clause("crash_history", check_history,
               "2-3 successive crashes before the final clean run; non-trivial = at least two faults fired",
               _history_cases, quick=6, thorough=300, quick_shards=3, shrink_quick=False),
        Clause("worker_counts", check_workers,
               "uninterrupted runs with --num-workers 1..3 and drawn per-item delays vs --num-workers 0; non-trivial = >= 2 utterances, dither on",
               _worker_cases, quick=6, thorough=150, quick_shards=3, shrink_quick=False),
    ]
