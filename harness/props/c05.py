"""C05 - filter banks are laid out on the scale as documented, with unit gain."""
import math

import numpy as np
from hypothesis import strategies as st

from ..core import Clause, Discard, HarnessError, call, expect_raises, require
from ..oracles import banks_ref as R
from ..strategies import (
    RATES,
    bank_specs,
    round_linear_tri_specs,
    build_bank,
    build_scale,
    floats,
    gabor_degenerate,
    gammatone_degenerate,
    scale_specs,
)

PROPERTY = "C05"
LEVEL = "exploration"
RULE = (
    "Generated bank configurations (4 classes x 4 scales x 7 rates x ranges x flags, 1-40 filters) "
    "with one filter index / DFT width per case; oracle = layout, triangles, bandwidth constants and "
    "normalisation re-derived from the class docstrings (oracles/banks_ref.py). Non-trivial = bank "
    "with >= 2 filters on a non-linear scale or a flag off its default; rejection cases counted apart."
)
ASSUMPTIONS = [
    "valid ranges are 0 <= low < high <= floor(rate/2) or high_hz=None (ranges every class accepts); octave scales start at or below low_hz > 0",
    "Gabor / L2-gammatone banks containing a filter whose whole response lies below EFFECTIVE_SUPPORT_THRESHOLD (decided from the reference formulas) are outside 'valid' and discarded",
    "'support spans less than half the sampling rate' is decided from the reference response (the region where it exceeds the threshold), so that a wrong normalisation cannot remove a filter from the domain",
    "'3 dB' accepts |H|^2 in [0.5, 10^-0.3] +- 2e-3 at the documented intersection points",
    "peak gain / ERB / L2 norm are judged at 1e-3; layout at 1e-9 relative; triangles at 1e-12 (Fbank: on the squared response, which is the documented mel triangle)",
    "invalid ranges are those invalid under the statement: low<0; 0<high<=low; high>rate/2+1 (high in (floor(rate/2), rate/2+1] is not generated)",
    "gain grids are capped at 2^18 bins (gammatone) / 2^15 bins (Gabor) and L2 buffers at 16384 samples; filters needing more are discarded",
]

_SELF_TESTED = []


def _thr():
    from pydrobert.speech import config

    if not _SELF_TESTED:
        try:
            R.self_test()
        except AssertionError as e:  # noqa
            raise HarnessError("banks_ref self-test failed: %r" % (e,))
        _SELF_TESTED.append(1)
    return float(config.EFFECTIVE_SUPPORT_THRESHOLD)


def scale_name(spec):
    return "mel" if spec["alias"] == "fbank" else spec["scale"]["alias"]


def bank_labels(spec):
    k = spec["alias"]
    labs = ["%s:%s" % (k, scale_name(spec)), "rate=%d" % spec["sampling_rate"],
            "high=None" if spec["high_hz"] is None else "high=given",
            "nfilt=1" if spec["num_filts"] == 1 else ("nfilt<=12" if spec["num_filts"] <= 12 else "nfilt>12")]
    for flag in ("analytic", "erb", "scale_l2_norm", "max_centered"):
        if flag in spec:
            labs.append("%s:%s=%d" % (k, flag, bool(spec[flag])))
    if "order" in spec:
        labs.append("order=%d" % spec["order"])
    return labs


def is_nontrivial(spec):
    flags_off = (
        spec.get("analytic") or spec.get("erb") or spec.get("scale_l2_norm") or spec.get("max_centered")
        or spec.get("order", 4) != 4
    )
    return bool((spec["num_filts"] >= 2 and scale_name(spec) != "linear") or flags_off)


def build_or_discard(spec, thr):
    """Degenerate banks are recognised from the reference formulas, never from constructor errors."""
    if gabor_degenerate(spec, thr) or gammatone_degenerate(spec, thr):
        raise Discard()
    return call("%s constructor" % spec["alias"], build_bank, spec)


def close(a, b, rtol=1e-9):
    return abs(a - b) <= rtol * max(1.0, abs(b))


# ------------------------------------------------------------------ clause: layout



# ------------------------------------------------------------------ query history ("warm-up")
# A bank object is queried many times (one computer per DFT width, vis, torch ports); results must not
# depend on what was asked before. Each case may carry a drawn list of earlier queries that are made on
# the *same instance* before the judged query, so that an order-dependent implementation (memoised
# responses keyed too coarsely, shared scratch buffers) is judged by the same oracle.

def half_len(W):
    return (W + 1) // 2 if W % 2 else W // 2 + 1


def warmups():
    op = st.fixed_dictionaries({
        "m": st.sampled_from(["freq", "half", "trunc", "imp", "freq", "half", "other"]),
        "filt": st.sampled_from(["same", "same", "same", 0, 1, 2]),
        "w": st.sampled_from(["same", "same", "2W-2", "2W-1", "half_len", "W+1", "W-1", 7, 12, 64]),
        # the caller post-processes the array it was given in place (dB conversion, normalisation ...)
        "scribble": st.sampled_from([False, False, True]),
    })
    # short ordered sequences over two filters and a few widths around the judged one (tables shared between filters or
    # widths, caches with an eviction rule and lazily grown buffers only go wrong for one order of three requests)
    seq = st.fixed_dictionaries({
        "m": st.sampled_from(["freq", "freq", "half", "imp", "trunc"]),
        "filt": st.sampled_from(["same", "other", "other2"]),
        "w": st.sampled_from(["same", "same", "W-1", "W+1", 12, 64, "2W-1"]),
        "scribble": st.just(False),
    })
    return st.one_of(st.just([]), st.lists(op, min_size=1, max_size=4), st.lists(seq, min_size=2, max_size=3))


def _other_instance(bank, W):
    """Another bank object of the same class with different parameters, built and queried first: state must
    be per instance, never shared through the class or the module."""
    from pydrobert.speech import filters, scales

    cls = type(bank)
    rate = bank.sampling_rate
    kw = dict(num_filts=bank.num_filts + 2, low_hz=max(1.0, rate / 50.0), high_hz=rate // 2 - max(1, rate // 40), sampling_rate=rate)
    try:
        other = cls(**kw) if cls is filters.Fbank else cls(scales.LinearScaling(0.0), **kw)
    except Exception:  # noqa - the judged bank is what the clause is about
        return
    for j in (0, other.num_filts - 1):
        other.get_frequency_response(j, W)
        other.get_frequency_response(j, W, True)
        other.get_truncated_response(j, W)
        if W <= 256:
            other.get_impulse_response(j, W)
    _ = other.supports, other.supports_hz


def apply_warmup(bank, num_filts, i, W, warmup):
    for op in warmup or ():
        if op["m"] == "other":
            if 2 <= W <= 8192:
                _other_instance(bank, W)
            continue
        w = op["w"]
        if w == "same":
            w = W
        elif w == "2W-2":
            w = 2 * W - 2
        elif w == "2W-1":
            w = 2 * W - 1
        elif w == "half_len":
            w = half_len(W)
        elif w == "W+1":
            w = W + 1
        elif w == "W-1":
            w = W - 1
        w = int(w)
        if w < 2 or w > 8192:
            continue
        if op["filt"] == "same":
            j = i
        elif op["filt"] in ("other", "other2"):
            j = (i + (1 if op["filt"] == "other" else num_filts // 2 + 1)) % num_filts
        else:
            j = int(op["filt"]) % num_filts
        m = op["m"]
        got = None
        if m == "freq":
            got = call("get_frequency_response (earlier query)", bank.get_frequency_response, j, w)
        elif m == "half":
            got = call("get_frequency_response(half=True) (earlier query)", bank.get_frequency_response, j, w, True)
        elif m == "trunc":
            got = call("get_truncated_response (earlier query)", bank.get_truncated_response, j, w)
        elif m == "imp" and w <= 512:
            got = call("get_impulse_response (earlier query)", bank.get_impulse_response, j, w)
        if op.get("scribble"):
            # a returned array belongs to the caller: whatever it does with it must not reach later queries
            for arr in (got if isinstance(got, tuple) else (got,)):
                if isinstance(arr, np.ndarray) and arr.size and arr.flags.writeable:
                    arr *= 3.0
                    arr += 1.0


# ------------------------------------------------------------------ exhaustive orders of three requests

TRIPLE_BANKS = {
    "tri": {"alias": "tri", "num_filts": 7, "low_hz": 0.0, "high_hz": 500.0, "sampling_rate": 1000, "scale": {"alias": "mel"}, "analytic": False},
    "fbank": {"alias": "fbank", "num_filts": 7, "low_hz": 0.0, "high_hz": 500.0, "sampling_rate": 1000, "analytic": True},
    "gabor": {"alias": "gabor", "num_filts": 7, "low_hz": 20.0, "high_hz": 500.0, "sampling_rate": 1000, "scale": {"alias": "mel"}, "erb": False, "scale_l2_norm": False},
    "gammatone": {"alias": "gammatone", "num_filts": 7, "low_hz": 20.0, "high_hz": 500.0, "sampling_rate": 1000, "scale": {"alias": "mel"},
                  "erb": False, "scale_l2_norm": False, "order": 4, "max_centered": False},
}


def _request(bank, m, j, w):
    if m == "freq":
        return bank.get_frequency_response(j, w)
    if m == "half":
        return bank.get_frequency_response(j, w, True)
    if m == "trunc":
        return bank.get_truncated_response(j, w)
    return bank.get_impulse_response(j, w)


def enum_triples(methods, widths=(24, 40), filts=(0, 6)):
    """Every ordered triple of requests over two filters (with no vertex in common), two widths and the given methods."""
    import itertools

    reqs = [(m, j, w) for m in methods for j in filts for w in widths]
    for kind in TRIPLE_BANKS:
        for triple in itertools.product(reqs, repeat=3):
            if len(set(triple)) < 2:
                continue
            yield {"kind": kind, "reqs": [list(r) for r in triple]}


def check_triple(case):
    """The answer to a request does not depend on the two requests made before it on the same bank object."""
    spec = TRIPLE_BANKS[case["kind"]]
    bank = call("bank constructor", build_bank, spec)
    out = None
    for m, j, w in case["reqs"]:
        out = call("%s(%d, %d)" % (m, j, w), _request, bank, m, j, w)
    m, j, w = case["reqs"][-1]
    want = _request(build_bank(spec), m, j, w)
    parts = lambda v: [np.asarray(p) for p in (v if isinstance(v, tuple) else (v,))]  # noqa
    same = all(a.shape == b.shape and np.array_equal(a, b) for a, b in zip(parts(out), parts(want))) and len(parts(out)) == len(parts(want))
    require(same, "{} bank: the answer to {}({}, {}) after {} differs from a fresh bank's answer", case["kind"], m, j, w,
            ", then ".join("%s(%d, %d)" % tuple(r) for r in case["reqs"][:2]))
    return {"nontrivial": len(set(tuple(r) for r in case["reqs"])) == 3, "labels": ["kind=" + case["kind"], "last=" + m]}


def check_layout(case):
    spec = case["bank"]
    thr = _thr()
    bank = build_or_discard(spec, thr)
    n = spec["num_filts"]
    require(bank.num_filts == n, "num_filts is {} for a bank built with {}", bank.num_filts, n)
    centres = [float(c) for c in call("centers_hz", lambda: bank.centers_hz)]
    supports = [(float(a), float(b)) for a, b in call("supports_hz", lambda: bank.supports_hz)]
    require(len(centres) == n and len(supports) == n, "centers_hz / supports_hz have {} / {} entries, expected {}", len(centres), len(supports), n)
    ref_c, ref_b = R.layout(spec)
    for i in range(n):
        require(math.isfinite(centres[i]), "centre {} is not finite: {!r}", i, centres[i])
        require(close(centres[i], ref_c[i]), "centre {} is {!r} Hz, the documented layout gives {!r}", i, centres[i], ref_c[i])
        lo, hi = supports[i]
        require(math.isfinite(lo) and math.isfinite(hi), "supports_hz[{}] = {!r} is not finite", i, supports[i])
        require(lo < centres[i] < hi, "centre {} ({!r} Hz) is not inside supports_hz {!r}", i, centres[i], supports[i])
        if spec["alias"] in ("tri", "fbank"):
            require(close(lo, ref_b[i][0]) and close(hi, ref_b[i][1]),
                    "supports_hz[{}] = {!r}, the documented vertices are {!r}", i, supports[i], ref_b[i])
        if i:
            require(centres[i] > centres[i - 1], "centres not strictly increasing: {!r} then {!r}", centres[i - 1], centres[i])
    require(float(bank.sampling_rate) == float(spec["sampling_rate"]), "sampling_rate is {!r}", bank.sampling_rate)
    return {"nontrivial": is_nontrivial(spec), "labels": bank_labels(spec)}


# ------------------------------------------------------------------ clause: triangles


def check_triangle(case):
    spec = case["bank"]
    thr = _thr()
    bank = build_or_discard(spec, thr)
    i = case["filt"] % spec["num_filts"]
    rate = float(spec["sampling_rate"])
    W = case.get("width")
    if W is None:
        # width chosen relative to the documented bandwidth: `bins` DFT bins across the triangle
        rl, rr = R.layout(spec)[1][i]
        W = int(min(4096, max(2, math.ceil(case["bins"] * rate / (rr - rl)))))
    lo, hi = (float(x) for x in bank.supports_hz[i])
    mid = float(bank.centers_hz[i])
    apply_warmup(bank, spec["num_filts"], i, W, case.get("warmup"))
    H = call("get_frequency_response", bank.get_frequency_response, i, W)
    require(isinstance(H, np.ndarray) and H.shape == (W,), "frequency response has shape {!r}, expected ({},)", getattr(H, "shape", None), W)
    require(bool(np.all(np.isfinite(H))), "non-finite values in the frequency response (width {})", W)
    require(not np.iscomplexobj(H) or float(np.max(np.abs(H.imag))) == 0.0, "zero-phase response has an imaginary part")
    H = np.asarray(H.real, dtype=np.float64)
    analytic = bool(spec.get("analytic"))
    fb = spec["alias"] == "fbank"
    inside = 0
    worst = 0.0
    for k in range(W):
        f = rate * k / W
        if not analytic and f > rate / 2:
            f = rate * (W - k) / W
        if fb:
            want = R.fbank_response_sq(f, lo, mid, hi)
            got = H[k] * H[k]
            require(H[k] >= 0.0, "Fbank response negative at bin {}: {!r}", k, H[k])
        else:
            want = R.tri_response(f, lo, mid, hi)
            got = H[k]
        inside += want > 0
        err = abs(got - want)
        worst = max(worst, err)
        require(err <= 1e-12, "bin {} of {} ({!r} Hz): {} is {!r}, documented triangle gives {!r} (filter {} between {!r}, {!r}, {!r} Hz)",
                k, W, f, "squared response" if fb else "response", float(got), want, i, lo, mid, hi)
    labs = bank_labels(spec) + ["width odd" if W % 2 else "width even",
                                "bins inside=0" if inside == 0 else ("bins inside<=2" if inside <= 2 else "bins inside>2")]
    return {"nontrivial": is_nontrivial(spec) and inside > 0, "labels": labs}


# ------------------------------------------------------------------ clause: gain, 3 dB crossing, ERB

GRID_CAP = {"gammatone": 1 << 18, "gabor": 1 << 15}


def _applicable(spec, thr, need):
    """Indices of filters whose reference support spans < rate/2 and for which need(i, l, r) (grid /
    buffer size) is affordable."""
    rate = spec["sampling_rate"]
    _, bands = R.layout(spec)
    out = []
    for i, (l, r) in enumerate(bands):
        if R.ref_span_hz(spec, l, r, thr) < rate / 2 and need(i, l, r):
            out.append(i)
    return bands, out


def _lagrange3(y, k0, x, W):
    """Quadratic through bins k0-1, k0, k0+1 (indices modulo W) evaluated at fractional bin x."""
    ym, y0, yp = y[(k0 - 1) % W], y[k0 % W], y[(k0 + 1) % W]
    d = x - k0
    return y0 + 0.5 * d * (yp - ym) + 0.5 * d * d * (yp - 2 * y0 + ym)


def check_gain(case):
    spec = case["bank"]
    thr = _thr()
    rate = float(spec["sampling_rate"])
    cap = GRID_CAP[spec["alias"]]
    bands, app = _applicable(spec, thr, lambda i, l, r: 16 * rate / (r - l) + 20 <= cap)
    if spec.get("scale_l2_norm") or not app:
        raise Discard()
    bank = build_or_discard(spec, thr)
    i = app[case["filt"] % len(app)]
    l, r = bands[i]
    W = int(math.ceil(16 * rate / (r - l))) + case["extra"]
    apply_warmup(bank, spec["num_filts"], i, W, case.get("warmup"))
    H = call("get_frequency_response", bank.get_frequency_response, i, W)
    require(isinstance(H, np.ndarray) and H.shape == (W,), "frequency response has shape {!r}", getattr(H, "shape", None))
    if case["filt"] % 2:
        # the same response asked for as a half spectrum (the other route to these values) is judged instead
        Hh = call("get_frequency_response(half=True)", bank.get_frequency_response, i, W, True)
        require(isinstance(Hh, np.ndarray) and Hh.shape == (W // 2 + 1,), "half response has shape {!r} for width {}", getattr(Hh, "shape", None), W)
        full = np.array(H, copy=True)
        H = np.zeros(W, dtype=complex)
        H[: W // 2 + 1] = Hh
        H[W // 2 + 1:] = full[W // 2 + 1:]
    A = np.abs(H)
    require(bool(np.all(np.isfinite(A))), "non-finite frequency response")
    k0 = int(np.argmax(A))
    ym, y0, yp = A[(k0 - 1) % W], A[k0], A[(k0 + 1) % W]
    if min(ym, y0, yp) > 0 and (ym - 2 * y0 + yp) != 0:
        lm, l0, lp = math.log(ym), math.log(y0), math.log(yp)
        den = lm - 2 * l0 + lp
        delta = 0.5 * (lm - lp) / den if den < 0 else 0.0
        delta = min(1.0, max(-1.0, delta))
        peak = math.exp(l0 - 0.25 * (lm - lp) * delta)
    else:
        delta, peak = 0.0, float(y0)
    centre = (l + r) / 2
    f_peak = (k0 + delta) * rate / W
    dist = abs((f_peak - centre + rate / 2) % rate - rate / 2)
    P = A * A
    labs = bank_labels(spec)
    if spec.get("erb"):
        erb = float(np.sum(P)) * rate / W / (peak * peak)
        require(abs(erb - (r - l)) <= 1e-3 * (r - l), "filter {}: equivalent rectangular bandwidth is {!r} Hz, edge spacing is {!r} Hz (ratio {!r})",
                i, erb, r - l, erb / (r - l))
    else:
        for e in (l, r):
            x = e * W / rate
            v = _lagrange3(P, int(round(x)), x, W)
            require(R.HALF_POWER_LO - 2e-3 <= v <= R.HALF_POWER_HI + 2e-3,
                    "filter {}: |H|^2 at the documented intersection {!r} Hz is {!r}, expected within [0.5, 10^-0.3]", i, e, float(v))
    require(abs(peak - 1.0) <= 1e-3, "filter {} (reference support < rate/2): peak gain is {!r}, expected 1 (grid of {} bins)", i, peak, W)
    require(dist <= rate / W, "filter {}: response peaks at {!r} Hz, documented centre is {!r} Hz (bin spacing {!r})", i, f_peak, centre, rate / W)
    rep = [float(x) for x in bank.supports_hz[i]]
    labs.append("reported span < rate/2" if rep[1] - rep[0] < rate / 2 else "reported span >= rate/2")
    labs.append("wraps below 0 Hz" if rep[0] < 0 else "no wrap")
    return {"nontrivial": is_nontrivial(spec), "labels": labs}


# ------------------------------------------------------------------ clause: L2 norm

L2_CAP = 16384


def _l2_width(spec, l, r, thr):
    p = R.ref_params(spec, l, r, thr)
    if spec["alias"] == "gabor":
        return 2 * int(math.ceil(7 * p["std"])) + 2
    return int(math.ceil((p["order"] + 12) / p["alpha"])) + 2


def check_l2(case):
    spec = case["bank"]
    thr = _thr()
    if not spec.get("scale_l2_norm"):
        raise Discard()
    if gabor_degenerate(spec, thr) or gammatone_degenerate(spec, thr):
        raise Discard()
    bands, app = _applicable(spec, thr, lambda i, l, r: _l2_width(spec, l, r, thr) <= L2_CAP)
    if not app:
        raise Discard()
    bank = build_or_discard(spec, thr)
    i = app[case["filt"] % len(app)]
    l, r = bands[i]
    W = _l2_width(spec, l, r, thr) + case["extra"]
    h = call("get_impulse_response", bank.get_impulse_response, i, W)
    require(isinstance(h, np.ndarray) and h.shape == (W,), "impulse response has shape {!r}", getattr(h, "shape", None))
    require(bool(np.all(np.isfinite(h))), "non-finite impulse response")
    norm2 = float(np.sum(np.abs(h) ** 2))
    require(abs(norm2 - 1.0) <= 1e-3, "filter {} with scale_l2_norm: sum |h|^2 over {} samples is {!r}, expected 1", i, W, norm2)
    return {"nontrivial": True, "labels": bank_labels(spec)}


# ------------------------------------------------------------------ clause: rejection of invalid ranges


def _bank_from(case, low, high):
    from pydrobert.speech import filters

    kind = case["alias"]
    kw = dict(num_filts=case["num_filts"], low_hz=low, high_hz=high, sampling_rate=case["sampling_rate"])
    if kind == "fbank":
        return filters.Fbank(**kw)
    sc = build_scale(case["scale"])
    cls = {"tri": filters.TriangularOverlappingFilterBank, "gabor": filters.GaborFilterBank,
           "gammatone": filters.ComplexGammatoneFilterBank}[kind]
    return cls(sc, **kw)


def reject_range(case):
    rate = case["sampling_rate"]
    nyq = rate / 2
    kind, u, v = case["kind"], case["u"], case["v"]
    if kind == "neg_low":
        low = -v
        high = None if case["high_none"] else max(1.0, u * math.floor(nyq))
    elif kind == "high_le_low":
        low = max(u * (math.floor(nyq) - 1), 1e-3)
        high = low if case["equal"] else max(low - v, low * 0.5, 5e-4)
    elif kind == "above_nyquist":
        low = u * (math.floor(nyq) - 1)
        high = nyq + 1 + v
        require_ok = high > nyq + 1
        if not require_ok:
            raise Discard()
    else:
        raise HarnessError("unknown kind %r" % kind)
    return float(low), (None if high is None else float(high))


def check_reject(case):
    low, high = reject_range(case)
    desc = "%s(low_hz=%r, high_hz=%r, sampling_rate=%r)" % (case["alias"], low, high, case["sampling_rate"])
    expect_raises(desc, ValueError, _bank_from, case, low, high)
    labs = ["%s:%s" % (case["alias"], case["kind"])]
    if case["kind"] == "neg_low":
        labs.append("high=None" if case["high_none"] else "high=given")
    if case["kind"] == "high_le_low":
        labs.append("high==low" if case["equal"] else "high<low")
    return {"nontrivial": True, "labels": labs}


def _reject_cases():
    v = st.one_of(st.sampled_from([1e-9, 1e-6, 1e-3, 0.5, 1.0, 2.0, 1000.0]), floats(1e-9, 1e5))
    return st.fixed_dictionaries({
        "alias": st.sampled_from(["tri", "fbank", "gabor", "gammatone"]),
        "kind": st.sampled_from(["neg_low", "high_le_low", "above_nyquist"]),
        "sampling_rate": st.sampled_from(RATES),
        "num_filts": st.integers(1, 12),
        "scale": scale_specs(),
        "u": st.one_of(st.just(0.0), floats(0.0, 1.0), st.just(1.0)),
        "v": v,
        "high_none": st.booleans(),
        "equal": st.booleans(),
    })


# ------------------------------------------------------------------ strategies


@st.composite
def narrowed_specs(draw, kinds, max_filts=40, allow_l2=True, orders=(1, 2, 3, 4, 5, 6), rates=RATES, always=False):
    """bank_specs, optionally squeezed into a narrower (still valid) range so that individual
    filters are narrow enough for 'support < rate/2' to apply."""
    spec = dict(draw(bank_specs(kinds=kinds, max_filts=max_filts, allow_l2=allow_l2, orders=orders, rates=rates)))
    narrow = floats(-2.5, -0.3 if always else 0.0).map(lambda u: 10.0 ** u)
    frac = draw(narrow if always else st.one_of(st.just(1.0), narrow, narrow))
    if frac < 1.0:
        rate = spec["sampling_rate"]
        nyq = rate // 2
        high = nyq if spec["high_hz"] is None else spec["high_hz"]
        low = spec["low_hz"]
        floor = 2.0 * (spec["num_filts"] + 1) * rate * 4e-4 + 1.0
        new_high = min(high, low + max(frac * (high - low), floor))
        if new_high > low:
            spec["high_hz"] = float(new_high)
    return spec


def clauses(tier):
    any_bank = lambda: st.fixed_dictionaries({"bank": st.one_of(bank_specs(max_filts=12), bank_specs(max_filts=40))})  # noqa
    tri_case = lambda: st.fixed_dictionaries({  # noqa
        "bank": st.one_of(bank_specs(kinds=["tri", "fbank"], max_filts=24), bank_specs(kinds=["tri", "fbank"], max_filts=24),
                          bank_specs(kinds=["tri", "fbank"], max_filts=24), round_linear_tri_specs()),
        "filt": st.integers(0, 39),
        "width": st.one_of(st.none(), st.none(), st.integers(2, 16), st.integers(2, 2048),
                           st.sampled_from([2, 3, 4, 8, 64, 255, 256, 257, 512, 1024, 2048])),
        "bins": st.one_of(floats(0.5, 4.0), floats(1.0, 64.0)),
        "warmup": warmups(),
    })
    gain_case = lambda: st.fixed_dictionaries({  # noqa
        "bank": narrowed_specs(["gabor", "gammatone"], allow_l2=False),
        "filt": st.integers(0, 39),
        "extra": st.integers(0, 17),
        "warmup": warmups(),
    })
    l2_case = lambda: st.fixed_dictionaries({  # noqa
        "bank": narrowed_specs(["gabor", "gammatone", "gammatone"], rates=[1000, 2000, 8000, 8000, 16000, 44100],
                               orders=(2, 3, 4, 4, 5, 6, 8, 10, 11), always=True).map(
            lambda s: dict(s, scale_l2_norm=True)),
        "filt": st.integers(0, 39),
        "extra": st.integers(0, 9),
    })
    return [
        Clause("layout", check_layout,
               "every filter of the bank against the documented vertices / half-step edges (1e-9), centres increasing and inside supports_hz",
               any_bank, quick=800, thorough=48000),
        Clause("triangle", check_triangle,
               "one (tri|Fbank bank, filter, width 2..4096 absolute or 0.5..64 bins per bandwidth) per case, every DFT bin against the documented triangle (1e-12); non-trivial needs a bin inside the support",
               tri_case, quick=700, thorough=48000),
        Clause("gain", check_gain,
               "one Gabor/gammatone filter whose reference support spans < rate/2 on a grid of >= 16 bins per bandwidth: peak gain 1 at the centre, 3 dB crossing at both documented intersections (erb=False) or ERB = edge spacing (erb=True)",
               gain_case, quick=600, thorough=32000),
        Clause("l2norm", check_l2,
               "one Gabor/gammatone filter with scale_l2_norm whose reference support spans < rate/2: sum |h|^2 = 1 +- 1e-3 over a buffer holding all but 1e-5 of the reference energy",
               l2_case, quick=400, thorough=20000),
        Clause("reject", check_reject,
               "ranges invalid under the statement (low<0 with/without high_hz=None; 0<high<=low; high>rate/2+1) must raise exactly ValueError",
               _reject_cases, quick=600, thorough=12000, shards=4),
    ]
