"""C19 - scaling functions are strictly increasing and exactly invertible."""
import math

import mpmath
from hypothesis import strategies as st

from ..core import Clause, Discard, Violation, call, expect_raises, require
from ..strategies import build_scale, floats, log_uniform, scale_specs

PROPERTY = "C19"
LEVEL = "exploration"
RULE = (
    "Generated (scale spec, frequency / scale value / ordered pair) tuples; oracle = round trip, "
    "order preservation, local Lipschitz bound at the Bark break-points and published formulas in mpmath."
)
ASSUMPTIONS = [
    "LinearScaling is exercised with slope_hz > 0 (a non-positive slope is not an increasing map)",
    "round trips are judged at |err| <= 1e-9*max(1,|x|) (float64 conditioning of log/exp)",
    "ordered pairs differ by at least 1e-9 relative (1e-9 Hz absolute below 1 Hz)",
]

F_MAX = 1e5


def _scales():
    # octave origins down to 1e-14 Hz: any positive low_hz is a valid parameter
    return scale_specs(octave_low_min_exp=-14)
BARK_BREAKS_HZ = [1960.0 * 2.53 / 24.28, 1960.0 * 20.63 / 6.18]


def _freqs():
    near = st.builds(
        lambda b, e, sgn: b * (1.0 + sgn * e),
        st.sampled_from(BARK_BREAKS_HZ),
        st.one_of(st.just(0.0), log_uniform(-15, -2)),
        st.sampled_from([-1.0, 1.0]),
    )
    return st.one_of(
        floats(0.0, F_MAX),
        log_uniform(-6, 5),
        near,
        st.sampled_from([0.0, 1.0, 1000.0, F_MAX, 700.0, 1960.0]),
        st.integers(0, 100000).map(float),
    )


def _snap_octave(case, spec, f):
    """For octave scales, optionally move f next to (not onto) a whole octave above low_hz."""
    o = case.get("near_octave")
    if spec["alias"] != "octave" or not o:
        return f
    g = spec["low_hz"] * 2.0 ** o["k"] * (1.0 + o["e"])
    return g if spec["low_hz"] <= g <= F_MAX else f


def _lo(spec):
    return spec["low_hz"] if spec["alias"] == "octave" else 0.0


def _clamp_f(spec, f):
    lo = _lo(spec)
    if f < lo:
        # map into the domain instead of rejecting
        f = lo + (f % max(F_MAX - lo, 1.0))
    return min(f, F_MAX)


def _region(spec, f):
    if spec["alias"] != "bark":
        return spec["alias"]
    z = 26.81 * f / (1960.0 + f) - 0.53
    return "bark<2" if z < 2 else ("bark>20.1" if z > 20.1 else "bark-mid")


# ------------------------------------------------------------------ clause: round trip Hz


def _other_first(case, f):
    """Another scale object of the same class with different parameters is queried at the same point first
    (parameters belong to the object, not to the class or the module)."""
    o = case.get("other")
    if not o:
        return
    spec = case["scale"]
    try:
        if spec["alias"] == "linear":
            other = build_scale({"alias": "linear", "low_hz": spec["low_hz"] + o, "slope_hz": spec.get("slope_hz", 1.0) * 2.0})
        elif spec["alias"] == "octave":
            other = build_scale({"alias": "octave", "low_hz": spec["low_hz"] * (1.0 + o)})
        else:
            other = build_scale(spec)
        s = other.hertz_to_scale(max(f, _lo(spec) * (2.0 + o)))
        other.scale_to_hertz(s)
        other.hertz_to_scale(f if spec["alias"] != "octave" else max(f, spec["low_hz"] * (1.0 + o)))
    except Exception:  # noqa - only the judged object matters here
        pass


def _build(case, spec):
    """The scaling function of the case; for the parametrised scales optionally built with OTHER parameters, used once in
    both directions, and then given its parameters by assignment (they are documented public attributes)."""
    if case.get("reassign") and spec["alias"] in ("linear", "octave"):
        first = dict(spec, low_hz=spec["low_hz"] * 0.5 + 7.0)
        if spec["alias"] == "linear":
            first["slope_hz"] = spec["slope_hz"] * 4.0
        sc = build_scale(first)
        try:
            sc.scale_to_hertz(sc.hertz_to_scale(first["low_hz"] + 3.0))
        except Exception:  # noqa - only the judged queries matter
            pass
        sc.low_hz = spec["low_hz"]
        if spec["alias"] == "linear":
            sc.slope_hz = spec["slope_hz"]
        return sc
    return build_scale(spec)


def _as_number(case, v):
    """Whole numbers may arrive as Python ints or numpy scalars."""
    t = case.get("numtype", "float")
    if float(v) == int(v) and abs(v) < 2 ** 53:
        if t == "int":
            return int(v)
        if t == "npint":
            import numpy as np

            return np.int64(int(v))
        if t == "npnarrow":
            # the narrowest numpy integer type that holds the value (a sample-rate or bin-frequency table stored compactly)
            import numpy as np

            iv = int(v)
            for ty in (np.uint8, np.int16, np.uint16, np.int32):
                if np.iinfo(ty).min <= iv <= np.iinfo(ty).max:
                    return ty(iv)
    if t == "npfloat":
        import numpy as np

        return np.float64(v)
    return v


def check_roundtrip_hz(case):
    spec, f = case["scale"], _clamp_f(case["scale"], case["f"])
    sc = _build(case, spec)
    f = _snap_octave(case, spec, f)
    _other_first(case, f)
    f = _as_number(case, f)
    s = call("hertz_to_scale", sc.hertz_to_scale, f)
    f2 = call("scale_to_hertz", sc.scale_to_hertz, s)
    require(math.isfinite(float(s)) and math.isfinite(float(f2)), "non-finite value s={} f2={}", s, f2)
    tol = 1e-9 * max(1.0, abs(f))
    require(abs(f2 - f) <= tol, "scale_to_hertz(hertz_to_scale({!r})) = {!r} (scale {!r})", f, f2, s)
    # and scale -> hz -> scale starting from the image point
    s2 = call("hertz_to_scale", sc.hertz_to_scale, f2)
    require(abs(s2 - s) <= 1e-9 * max(1.0, abs(s)), "hertz_to_scale(scale_to_hertz({!r})) = {!r}", s, s2)
    return {"nontrivial": f > 0, "labels": [_region(spec, f)]}


# ------------------------------------------------------------------ clause: round trip scale


def check_roundtrip_scale(case):
    spec, u = case["scale"], case["u"]
    sc = _build(case, spec)
    lo = _lo(spec)
    s_lo = float(call("hertz_to_scale", sc.hertz_to_scale, lo))
    s_hi = float(call("hertz_to_scale", sc.hertz_to_scale, F_MAX))
    s = s_lo + u * (s_hi - s_lo)
    if "snap" in case and spec["alias"] == "bark":
        s = case["snap"]["b"] * (1.0 + case["snap"]["e"])
    if case.get("whole"):
        # a whole-number scale value inside the image, possibly passed as an int
        w = math.floor(s) if math.floor(s) >= s_lo else math.ceil(s)
        if s_lo <= w <= s_hi:
            s = _as_number(case, float(w))
    _other_first(case, lo)
    f = call("scale_to_hertz", sc.scale_to_hertz, s)
    s2 = call("hertz_to_scale", sc.hertz_to_scale, f)
    require(math.isfinite(float(f)), "non-finite frequency for scale {!r}", s)
    require(
        abs(s2 - s) <= 1e-9 * max(1.0, abs(s)),
        "hertz_to_scale(scale_to_hertz({!r})) = {!r} (hz {!r})", s, s2, f,
    )
    require(f >= lo - 1e-6 * max(1.0, lo) and f <= F_MAX * (1 + 1e-6), "image point {!r} maps outside the domain: {!r}", s, f)
    lab = spec["alias"]
    if lab == "bark":
        lab = "bark<2" if s < 2 else ("bark>20.1" if s > 20.1 else "bark-mid")
    return {"nontrivial": 0 < u < 1, "labels": [lab]}


# ------------------------------------------------------------------ clause: monotone


def check_monotone(case):
    spec = case["scale"]
    sc = _build(case, spec)
    f1 = _snap_octave(case, spec, _clamp_f(spec, case["f"]))
    gap = max(case["gap"] * max(f1, 1.0), 1e-9 * max(f1, 1.0))
    f2 = f1 + gap
    if f2 > F_MAX * 1.001:
        raise Discard()
    s1 = call("hertz_to_scale", sc.hertz_to_scale, f1)
    s2 = call("hertz_to_scale", sc.hertz_to_scale, f2)
    require(s1 < s2, "not strictly increasing: s({!r})={!r} >= s({!r})={!r}", f1, s1, f2, s2)
    # inverse map is increasing too (on the image: both points are images of domain points)
    g1 = call("scale_to_hertz", sc.scale_to_hertz, s1)
    g2 = call("scale_to_hertz", sc.scale_to_hertz, s2)
    require(g1 < g2, "inverse not strictly increasing: f({!r})={!r} >= f({!r})={!r}", s1, g1, s2, g2)
    straddle = _region(spec, f1) != _region(spec, f2)
    return {"nontrivial": True, "labels": [_region(spec, f1)] + (["straddles-break"] if straddle else [])}


# ------------------------------------------------------------------ clause: continuity


def _max_slope(spec, f):
    a = spec["alias"]
    if a == "mel":
        return 1127.0 / (700.0 + f)
    if a == "bark":
        return 1.22 * 26.81 * 1960.0 / (1960.0 + f) ** 2
    if a == "linear":
        return spec["slope_hz"]
    return 1.0 / (max(f, 1e-300) * math.log(2.0))


def check_continuity(case):
    spec = case["scale"]
    sc = _build(case, spec)
    f = _clamp_f(spec, case["f"])
    lo = _lo(spec)
    d = case["eps"] * max(f, 1e-3)
    fa, fb = max(lo, f - d), min(F_MAX, f + d)
    if fb <= fa:
        raise Discard()
    sa = float(call("hertz_to_scale", sc.hertz_to_scale, fa))
    sb = float(call("hertz_to_scale", sc.hertz_to_scale, fb))
    slope = max(_max_slope(spec, fa), _max_slope(spec, fb))
    bound = 3.0 * slope * (fb - fa) + 1e-12 * max(1.0, abs(sa))
    require(abs(sb - sa) <= bound, "jump: s({!r})={!r}, s({!r})={!r}, bound {!r}", fa, sa, fb, sb, bound)
    # inverse continuity (slope of inverse = 1/slope of forward at the same point, up to 1.22/0.85 across the break)
    ga = float(call("scale_to_hertz", sc.scale_to_hertz, sa))
    gb = float(call("scale_to_hertz", sc.scale_to_hertz, sb))
    require(abs(gb - ga) <= 3.0 * (fb - fa) + 1e-9 * max(1.0, f), "inverse jump: f({!r})={!r}, f({!r})={!r}", sa, ga, sb, gb)
    straddle = _region(spec, fa) != _region(spec, fb)
    return {"nontrivial": straddle or spec["alias"] != "bark", "labels": ["straddles-break"] if straddle else [_region(spec, f)]}


# ------------------------------------------------------------------ clause: published formulas


def _mp_mel(f):
    return mpmath.mpf(1127) * mpmath.log(1 + mpmath.mpf(f) / 700)


def _mp_bark(f):
    f = mpmath.mpf(f)
    z = mpmath.mpf("26.81") * f / (1960 + f) - mpmath.mpf("0.53")
    if z < 2:
        z = z + mpmath.mpf("0.15") * (2 - z)
    elif z > mpmath.mpf("20.1"):
        z = z + mpmath.mpf("0.22") * (z - mpmath.mpf("20.1"))
    return z


def check_published(case):
    spec, f = case["scale"], case["f"]
    sc = _build(case, spec)
    with mpmath.workdps(40):
        ref = float(_mp_mel(f) if spec["alias"] == "mel" else _mp_bark(f))
    got = float(call("hertz_to_scale", sc.hertz_to_scale, f))
    require(abs(got - ref) <= 1e-9 * max(1.0, abs(ref)), "{} of {!r} Hz is {!r}, published formula gives {!r}", spec["alias"], f, got, ref)
    if spec["alias"] == "mel":
        m = float(call("hertz_to_scale", sc.hertz_to_scale, 1000.0))
        require(abs(m - 1000.0) < 0.02, "1000 Hz is {!r} mel", m)
    return {"nontrivial": f > 0, "labels": [_region(spec, f)]}


# ------------------------------------------------------------------ clause: parameters


def check_params(case):
    from pydrobert.speech.scales import OctaveScaling, LinearScaling

    if case["kind"] == "octave_bad":
        expect_raises("OctaveScaling(%r)" % case["low_hz"], ValueError, OctaveScaling, case["low_hz"])
        return {"nontrivial": case["low_hz"] < 0, "labels": ["octave_bad"]}
    if case["kind"] == "octave_ok":
        sc = call("OctaveScaling", OctaveScaling, case["low_hz"])
        s = call("hertz_to_scale", sc.hertz_to_scale, case["low_hz"])
        require(abs(s) <= 1e-12, "octave scale of low_hz is {!r}, expected 0", s)
        s = call("hertz_to_scale", sc.hertz_to_scale, 2 * case["low_hz"])
        require(abs(s - 1) <= 1e-12, "octave scale of 2*low_hz is {!r}, expected 1", s)
        return {"nontrivial": True, "labels": ["octave_ok"]}
    sc = call("LinearScaling", LinearScaling, case["low_hz"], case["slope_hz"])
    s = call("hertz_to_scale", sc.hertz_to_scale, case["low_hz"])
    require(abs(s) <= 1e-12, "linear scale of low_hz is {!r}", s)
    s = call("hertz_to_scale", sc.hertz_to_scale, case["low_hz"] + 1.0)
    require(abs(s - case["slope_hz"]) <= 1e-9 * case["slope_hz"] * max(1, abs(case["low_hz"])), "slope: scale(low+1) = {!r}", s)
    return {"nontrivial": True, "labels": ["linear"]}


def clauses(tier):
    nt = st.sampled_from(["float", "float", "float", "int", "npint", "npfloat", "npnarrow"])
    oth = st.one_of(st.none(), st.none(), st.sampled_from([0.5, 7.0, 100.0]))
    near = st.one_of(st.none(), st.none(), st.fixed_dictionaries({
        "k": st.integers(1, 16), "e": st.one_of(log_uniform(-14, -3), log_uniform(-14, -3).map(lambda v: -v))}))
    spec_f = lambda: st.fixed_dictionaries({"scale": _scales(), "f": _freqs(), "numtype": nt, "other": oth, "near_octave": near,  # noqa
                                            "reassign": st.sampled_from([False, False, True])})
    return [
        Clause(
            "roundtrip_hz", check_roundtrip_hz,
            "non-trivial = f > 0; distinct by (scale parameters, f)",
            spec_f, quick=3200, thorough=400000,
        ),
        Clause(
            "roundtrip_scale", check_roundtrip_scale,
            "scale value s = s(lo) + u (s(1e5) - s(lo)) or within 1e-15..1e-2 of a Bark break; non-trivial = interior point",
            lambda: st.one_of(
                st.fixed_dictionaries({"scale": _scales(), "u": floats(0.0, 1.0), "whole": st.booleans(),
                                       "numtype": st.sampled_from(["float", "int", "npint", "npfloat", "npnarrow"]),
                                       "other": st.one_of(st.none(), st.none(), st.sampled_from([0.5, 7.0, 100.0]))}),
                st.fixed_dictionaries(
                    {
                        "scale": st.just({"alias": "bark"}),
                        "u": st.just(0.5),
                        "snap": st.fixed_dictionaries(
                            {
                                "b": st.sampled_from([2.0, 20.1]),
                                "e": st.one_of(st.just(0.0), log_uniform(-15, -2), log_uniform(-15, -2).map(lambda x: -x)),
                            }
                        ),
                    }
                ),
            ),
            quick=2700, thorough=300000,
        ),
        Clause(
            "monotone", check_monotone,
            "ordered pair f1 < f2 = f1 + gap (relative gap 1e-9..1e-1); every pair is non-trivial",
            lambda: st.fixed_dictionaries({"scale": _scales(), "f": _freqs(), "gap": log_uniform(-9, -1), "near_octave": near}),
            quick=2700, thorough=300000,
        ),
        Clause(
            "continuity", check_continuity,
            "points f(1-eps), f(1+eps), eps 1e-13..1e-4, weighted to the Bark break-points; non-trivial = pair straddles a break (or non-Bark scale)",
            lambda: st.fixed_dictionaries(
                {
                    "scale": st.one_of(st.just({"alias": "bark"}), _scales()),
                    "f": st.one_of(st.sampled_from(BARK_BREAKS_HZ), _freqs()),
                    "eps": log_uniform(-13, -4),
                }
            ),
            quick=2200, thorough=200000,
        ),
        Clause(
            "published", check_published,
            "mel and Bark against the published formulas in 40-digit mpmath; non-trivial = f > 0",
            lambda: st.fixed_dictionaries(
                {"scale": st.sampled_from([{"alias": "mel"}, {"alias": "bark"}]), "f": _freqs()}
            ),
            quick=1500, thorough=60000,
        ),
        Clause(
            "params", check_params,
            "OctaveScaling with low_hz <= 0 must raise ValueError; valid parameters anchor scale 0 at low_hz",
            lambda: st.one_of(
                st.fixed_dictionaries({"kind": st.just("octave_bad"), "low_hz": st.one_of(st.just(0.0), floats(-1e6, 0.0), st.integers(-5, 0).map(float))}),
                st.fixed_dictionaries({"kind": st.just("octave_ok"), "low_hz": log_uniform(-3, 4)}),
                st.fixed_dictionaries({"kind": st.just("linear"), "low_hz": floats(-1000, 1000), "slope_hz": log_uniform(-3, 3)}),
            ),
            quick=600, thorough=20000, shards=4,
        ),
    ]
