"""C07 - impulse and frequency responses agree, within the advertised supports."""
import math

import numpy as np
from hypothesis import strategies as st

from ..core import Clause, Discard, call, require
from ..strategies import round_linear_tri_specs, tame_threshold_case, threshold_configs, with_config, bank_specs, floats
from .c05 import check_triple, enum_triples, _thr, apply_warmup, bank_labels, build_or_discard, narrowed_specs, warmups

PROPERTY = "C07"
LEVEL = "exploration"
RULE = (
    "Generated (bank configuration, filter index, buffer width) triples with width >= max(temporal "
    "support, 2*rate/bandwidth) taken from the bank's own supports / supports_hz (base, base+1 or up "
    "to 4x base); oracle = inverse DFT of get_frequency_response vs get_impulse_response and the "
    "smallness of both outside the advertised supports. Non-trivial = temporal support >= 5 samples "
    "and width != base."
)
ASSUMPTIONS = [
    "banks: triangular, Fbank, Gabor (incl. erb / scale_l2_norm) and gammatone of order 3..6 without scale_l2_norm (statement)",
    "only filters whose supports_hz span is <= the sampling rate (for wider ones no buffer resolves the filter in both domains); counted as discards otherwise",
    "bandwidth = width of supports_hz; temporal support = supports[i][1] - supports[i][0]; buffers above 8192 samples are discarded (cost)",
    "tolerances of the statement: 2*thr (time domain, agreement), 2.5*thr (outside supports_hz)",
    "bins / samples within 1e-9 (relative) of a support boundary count as inside",
]

W_CAP = 8192
# worst observed ratios to the threshold (diagnostics for tolerance margins; read by nobody else)
WORST = {}


def _note(key, kind, ratio, case):
    k = "%s:%s" % (key, kind)
    if ratio > WORST.get(k, (0.0, None))[0]:
        WORST[k] = (ratio, case)


def _filters_in_domain(bank, rate):
    out = []
    sup, sup_hz = bank.supports, bank.supports_hz
    for i in range(bank.num_filts):
        lo, hi = float(sup_hz[i][0]), float(sup_hz[i][1])
        l, r = sup[i]
        if not (math.isfinite(lo) and math.isfinite(hi) and hi > lo):
            continue
        if hi - lo > rate:
            continue
        base = max(int(r - l), int(math.ceil(2 * rate / (hi - lo))))
        if base > W_CAP:
            continue
        out.append((i, base))
    return out


def check_agree(case):
    spec = case["bank"]
    thr = _thr()
    if spec["alias"] == "gammatone" and (spec.get("order", 4) < 3 or spec.get("scale_l2_norm")):
        raise Discard()
    bank = build_or_discard(spec, thr)
    rate = float(spec["sampling_rate"])
    sup = call("supports", lambda: bank.supports)
    sup_hz = call("supports_hz", lambda: bank.supports_hz)
    require(len(sup) == spec["num_filts"] and len(sup_hz) == spec["num_filts"], "supports / supports_hz have the wrong length")
    for i in range(spec["num_filts"]):
        l, r = sup[i]
        require(float(l) == int(l) and float(r) == int(r), "supports[{}] = {!r} is not a pair of whole samples", i, sup[i])
    dom = _filters_in_domain(bank, rate)
    if not dom:
        raise Discard()
    i, base = dom[case["filt"] % len(dom)]
    left, right = int(sup[i][0]), int(sup[i][1])
    lo, hi = float(sup_hz[i][0]), float(sup_hz[i][1])
    mode = case["wmode"]
    if mode == "base":
        W = base
    elif mode == "base+1":
        W = base + 1
    elif mode == "fragile":
        # the first width at or above the drawn one at which a grid built with a floating-point step miscounts
        import bisect

        from ..strategies import fragile_width_list

        ws = fragile_width_list(5000)
        W = int(math.floor(base * case["mult"]))
        k = bisect.bisect_left(ws, W)
        if k < len(ws) and ws[k] <= 4 * base:
            W = ws[k]
    else:
        W = int(math.floor(base * case["mult"]))
    W = max(W, 1)
    if W > W_CAP:
        raise Discard()

    # supports straddle 0 (zero phase) / start at 0 (causal gammatone)
    if spec["alias"] == "gammatone":
        if not spec.get("max_centered"):
            require(left == 0, "causal gammatone filter {}: support starts at sample {} instead of 0", i, left)
    else:
        require(left < 0 < right, "zero-phase filter {}: supports {!r} do not straddle sample 0", i, (left, right))

    apply_warmup(bank, spec["num_filts"], i, W, case.get("warmup"))
    x = call("get_impulse_response", bank.get_impulse_response, i, W)
    X = call("get_frequency_response", bank.get_frequency_response, i, W)
    require(isinstance(x, np.ndarray) and x.shape == (W,), "impulse response has shape {!r}, expected ({},)", getattr(x, "shape", None), W)
    require(isinstance(X, np.ndarray) and X.shape == (W,), "frequency response has shape {!r}, expected ({},)", getattr(X, "shape", None), W)
    require(bool(np.all(np.isfinite(x))) and bool(np.all(np.isfinite(X))), "non-finite response (filter {}, width {})", i, W)
    is_real = bool(bank.is_real)
    require(np.isrealobj(x) == is_real, "is_real is {} but the impulse response has dtype {}", is_real, x.dtype)

    # (1) the two domains agree
    d = np.abs(np.fft.ifft(X) - x)
    k = int(np.argmax(d))
    _note("agree", spec["alias"], float(d[k]) / thr, case)
    require(d[k] <= 2 * thr, "filter {} width {} (base {}): |ifft(H) - h| = {:.3g} = {:.3g} x threshold at sample {} (supports {!r}, supports_hz {!r})",
            i, W, base, float(d[k]), float(d[k]) / thr, k, (left, right), (lo, hi))

    # (2) outside the temporal support
    outside_t = np.ones(W, dtype=bool)
    if right - left + 1 >= W:
        outside_t[:] = False
    else:
        outside_t[np.arange(left, right + 1) % W] = False
    if outside_t.any():
        a = np.abs(x) * outside_t
        k = int(np.argmax(a))
        _note("outside_t", spec["alias"], float(a[k]) / thr, case)
        require(a[k] < 2 * thr, "filter {} width {}: |h[{}]| = {:.3g} = {:.3g} x threshold outside supports {!r}",
                i, W, k, float(a[k]), float(a[k]) / thr, (left, right))

    # (3) outside the frequency support
    f = np.arange(W) * rate / W
    eps = 1e-9 * rate
    inside = ((f - lo + eps) % rate) <= (hi - lo) + 2 * eps
    if is_real:
        inside |= ((-f - lo + eps) % rate) <= (hi - lo) + 2 * eps
    outside_f = ~inside
    if outside_f.any():
        a = np.abs(X) * outside_f
        k = int(np.argmax(a))
        _note("outside_f", spec["alias"], float(a[k]) / thr, case)
        require(a[k] < 2.5 * thr, "filter {} width {}: |H[{}]| = {:.3g} = {:.3g} x threshold at {:.6g} Hz, outside supports_hz {!r}",
                i, W, k, float(a[k]), float(a[k]) / thr, float(f[k]), (lo, hi))

    labs = bank_labels(spec) + ["W=" + mode, "width odd" if W % 2 else "width even",
                                "base=temporal" if base == right - left else "base=2*rate/bw"]
    labs.append("support<5 samples" if right - left < 5 else ("support<64" if right - left < 64 else "support>=64"))
    if lo < 0:
        labs.append("support crosses 0 Hz")
    if outside_t.any():
        labs.append("samples outside support")
    if outside_f.any():
        labs.append("bins outside support")
    return {"nontrivial": bool(right - left >= 5 and W != base), "labels": labs}


# ------------------------------------------------------------------ strategies

KINDS = ["tri", "fbank", "gabor", "gabor", "gammatone", "gammatone", "gammatone"]
LOW_RATES = [1000, 2000, 8000, 8000, 11025, 16000, 22050, 32000, 44100, 48000]


def _cases():
    kw = dict(orders=(3, 4, 5, 6, 7, 8, 9, 10), allow_l2="gabor")
    banks = st.one_of(
        bank_specs(kinds=KINDS, rates=LOW_RATES, max_filts=12, **kw),
        narrowed_specs(KINDS, max_filts=24, rates=LOW_RATES, **kw),
        # many narrow filters at a high rate: the temporal supports are long and depend on the rate itself
        bank_specs(kinds=KINDS, rates=[32000, 44100, 48000], max_filts=40, min_filts=24, **kw),
        # triangular filters whose two sides differ in width (the knees of the Bark scale, 20+ filters)
        bank_specs(kinds=["tri"], rates=[8000, 16000, 22050], max_filts=40, min_filts=20).map(
            lambda b: dict(b, scale={"alias": "bark"}, low_hz=max(b["low_hz"], 0.0))),
        # linear scale with round vertices: DFT bins fall exactly on the vertices of the triangles
        round_linear_tri_specs(),
    )
    return st.fixed_dictionaries({
        "bank": banks, "filt": st.integers(0, 39),
        "wmode": st.sampled_from(["base", "base+1", "mult", "mult", "mult", "fragile"]),
        "mult": st.one_of(floats(1.0, 4.0), floats(1.0, 1.2)),
        "warmup": warmups(),
        "config": threshold_configs(),
    }).map(tame_threshold_case)


def clauses(tier):
    return [
        Clause("request_orders", check_triple,
               "exhaustive: every ordered triple of requests (get_impulse_response / get_frequency_response, two filters, two or three widths) on one bank "
               "object per bank class; the last answer must equal a fresh bank's. Non-trivial = three different requests",
               None, enumerate=lambda tier: enum_triples(("imp", "freq"), widths=(48, 80, 112)), enum_name="all_triples"),
        Clause("agree", with_config(check_agree),
               "one (bank, filter with supports_hz span <= rate, width in {base, base+1, [base, 4 base]}) per case: |ifft(H) - h| <= 2 thr, dtype real iff is_real, |h| < 2 thr outside supports (mod width), |H| < 2.5 thr outside supports_hz (mod rate, mirrored if real), supports straddle 0 / start at 0. Non-trivial = temporal support >= 5 samples and width != base",
               _cases, quick=3000, thorough=160000),
    ]
