"""C15 - Deltas and Stack produce the documented layout and values."""
import numpy as np
from hypothesis import strategies as st

from ..core import Clause, Discard, HarnessError, call, require
from ..oracles import post_ref

PROPERTY = "C15"
LEVEL = "exploration"
RULE = (
    "Generated (tensor shape/dtype/memory layout, axis, target_axis | time_axis, num_deltas, context window, "
    "pad mode, num_vectors) tuples; arrays are a pure function of a drawn PCG64 seed.  Oracle = explicit-loop "
    "Kaldi delta recursion / explicit-index Stack layout in harness/oracles/post_ref.py.  A case counts as "
    "non-trivial when ndim >= 3, or an axis argument is negative, or (Stack) the final run is incomplete; "
    "tensors with an empty non-filtered axis are executed but never counted as non-trivial."
)
ASSUMPTIONS = [
    "Deltas: the filtered axis has >= 1 frame (numpy.pad cannot edge-extend an empty axis); 'reflect' is only "
    "used with >= 2 frames (numpy treats a single frame as legacy edge padding)",
    "Deltas: pad modes edge/constant/reflect/symmetric with numpy.pad's default keyword arguments; a pad wider "
    "than the sequence follows numpy's periodic extension",
    "Deltas tolerance: 1e-9 (float64) / 1e-3 (float32) relative to max(1, max|x|); integer dtypes within 1 of the "
    "real-valued result (truncation); the order-0 block must equal the input exactly",
    "Stack: values are copies, compared exactly; the result dtype of Stack is not part of the statement",
    "Stack needs >= 2 dimensions (time and feature axes must differ) and num_vectors >= 1; pad modes None/edge/constant from own code, and "
    "wrap/mean/maximum/minimum/reflect/symmetric/linear_ramp with numpy.pad applied to the whole time axis as the reference (documented: "
    "'the axis in time will be padded on the right ... numpy.pad'), on non-empty tensors",
    "with in_place=True only the returned value is checked",
    "Deltas with one NaN / +-inf entry in float data (a quarter of the cases): only entries whose reference value - the "
    "recursion's local weighted sum over the padded vector - is finite are compared; entries the non-finite sample reaches are unconstrained",
]

DTYPES = {"f64": np.float64, "f32": np.float32, "i32": np.int32, "i16": np.int16}
SIZES = [0, 1, 1, 2, 2, 2, 3, 3, 3, 4, 4, 5]
LAYOUTS = ["C", "C", "F", "strided"]


def make_tensor(shape, dtype, seed, scale, layout="C"):
    """Deterministic tensor: a pure function of its (JSON) arguments."""
    shape = tuple(int(s) for s in shape)
    rng = np.random.Generator(np.random.PCG64(int(seed)))
    x = rng.standard_normal(shape) * float(scale)
    dt = np.dtype(DTYPES[dtype])
    if dt.kind == "i":
        info = np.iinfo(dt)
        x = np.clip(np.rint(x), info.min, info.max)
    x = x.astype(dt)
    if layout == "F":
        x = np.asfortranarray(x)
    elif layout == "strided":
        big = np.zeros(tuple(2 * s for s in shape), dtype=dt)
        view = big[tuple(slice(None, None, 2) for _ in shape)]
        view[...] = x
        x = view
    elif layout == "C":
        x = np.ascontiguousarray(x)
    else:
        raise HarnessError("unknown layout %r" % (layout,))
    return x


# numpy.pad modes beyond edge / constant whose padding depends on frames before the incomplete run
STACK_NUMPY_MODES = ("wrap", "mean", "maximum", "minimum", "reflect", "symmetric", "linear_ramp")


def _same(a, b):
    return a.shape == b.shape and a.dtype == b.dtype and np.array_equal(a, b, equal_nan=a.dtype.kind == "f")


# ------------------------------------------------------------------ clause: deltas


@st.composite
def deltas_cases(draw):
    ndim = draw(st.sampled_from([1, 2, 2, 3, 3, 4]))
    shape = [draw(st.sampled_from(SIZES)) for _ in range(ndim)]
    a = draw(st.integers(0, ndim - 1))
    T = draw(st.sampled_from([1, 2, 2, 3, 3, 4, 4, 5, 5, 6, 7] * 3 + [300, 1025]))  # a few long utterances
    if T > 7:
        shape = [min(v, 2) for v in shape]
    shape[a] = T
    axis = a - ndim if draw(st.booleans()) else a
    concatenate = draw(st.booleans())
    nt = ndim if concatenate else ndim + 1
    t = draw(st.integers(0, nt - 1))
    target = t - nt if draw(st.booleans()) else t
    modes = ["edge", "edge", "constant", "symmetric"] * 2 + (["reflect", "reflect"] if T >= 2 else []) + ["linear_ramp", "wrap", "mean", "maximum"]
    return {
        "shape": shape,
        "axis": axis,
        "target_axis": target,
        "concatenate": concatenate,
        "num_deltas": draw(st.sampled_from([0, 1, 1, 2, 2, 3, 4])),
        "context_window": draw(st.sampled_from([1, 2, 2, 3, 4])),
        "pad_mode": draw(st.sampled_from(modes)),
        "dtype": draw(st.sampled_from(["f64", "f64", "f32", "i32", "i16"])),
        "seed": draw(st.integers(0, 2 ** 32 - 1)),
        # 2**1020 (2**120 in single precision): finite data whose deltas are finite too (|delta| <= max|x|) but
        # that leaves no headroom for un-normalised intermediates
        "scale": draw(st.sampled_from([1.0, 1.0, 100.0, 1e-3, 3e4, 2.0 ** 1020])),
        "layout": draw(st.sampled_from(LAYOUTS)),
        "in_place": draw(st.sampled_from([False, False, False, True])),
        # one non-finite entry in the data (float dtypes): frames out of the filters' reach keep finite deltas
        "later_other": draw(st.sampled_from([None, None, 1, 2])),
        "prior_axis": draw(st.sampled_from([None, None, 0, 1, 2, -1])),
        "poke": draw(st.one_of(st.none(), st.none(), st.none(), st.fixed_dictionaries({
            "pos": st.integers(0, 2 ** 20), "val": st.sampled_from(["nan", "nan", "inf", "-inf"])}))),
    }


def check_deltas(case):
    from pydrobert.speech.post import Deltas

    shape = case["shape"]
    ndim = len(shape)
    axis, target, cc = case["axis"], case["target_axis"], bool(case["concatenate"])
    nd, W, mode = case["num_deltas"], case["context_window"], case["pad_mode"]
    nt = ndim if cc else ndim + 1
    if ndim < 1 or not -ndim <= axis < ndim or not -nt <= target < nt or nd < 0 or W < 1:
        raise Discard()
    T = shape[axis]
    if T < 1 or (mode == "reflect" and T < 2) or mode not in post_ref.PAD_MODES + post_ref.NUMPY_PAD_MODES:
        raise Discard()
    scale = case.get("scale", 1.0)
    if case["dtype"] in ("i16", "i32") and (scale < 1 or scale > 1e6):
        scale = 100.0
    if case["dtype"] == "f32" and scale > 1e30:
        scale = 2.0 ** 120
    x = make_tensor(shape, case["dtype"], case["seed"], scale, case.get("layout", "C"))
    poke = case.get("poke") if (x.dtype.kind == "f" and x.size) else None
    if poke:
        x[np.unravel_index(poke["pos"] % x.size, x.shape)] = float(poke["val"])
    x0 = x.copy()
    in_place = bool(case.get("in_place", False))

    if case.get("prior"):
        other = Deltas(1, pad_mode="constant", constant_values=7)  # another object with its own pad keyword arguments
        other.apply(np.arange(6.0).reshape(3, 2), axis=0)
    d = call(
        "Deltas(%d, target_axis=%d, concatenate=%s, context_window=%d, pad_mode=%r)" % (nd, target, cc, W, mode),
        Deltas, nd, target_axis=target, concatenate=cc, context_window=W, pad_mode=mode,
    )
    if case.get("later_other"):
        # a second Deltas object with the same context window and MORE orders is built (and used) after the judged one:
        # anything derived from (context window, order) belongs to each object
        other2 = Deltas(nd + case["later_other"], context_window=W)
        other2.apply(np.arange(12.0).reshape(6, 2), axis=0)
    if case.get("prior"):
        # the same post-processor object may already have been applied to another tensor
        pshape = [max(2, v) for v in case["prior"]]
        call("Deltas.apply (earlier call)", d.apply, make_tensor(pshape, "f64", 7, 1.0, "C"), axis=-1)
    if case.get("prior_axis") is not None and ndim >= 2:
        # the same object has just filtered a tensor of the SAME shape along ANOTHER axis
        a2 = case["prior_axis"] % ndim
        if a2 != axis % ndim and shape[a2] >= (2 if mode == "reflect" else 1) and x.size:
            call("Deltas.apply (earlier call, same shape, axis=%d)" % a2, d.apply, make_tensor(shape, "f64", 11, 1.0, "C"), axis=a2)
    with np.errstate(all="ignore"):
        out = call("Deltas.apply(axis=%d)" % axis, d.apply, x, axis=axis, in_place=in_place)
        ref, _ = post_ref.deltas_ref(x0, nd, W, mode, axis, target, cc)

    require(isinstance(out, np.ndarray), "Deltas.apply returned {}", type(out).__name__)
    require(
        out.shape == ref.shape,
        "layout: input shape {} with num_deltas={} concatenate={} target_axis={} gives shape {}, expected {}",
        tuple(shape), nd, cc, target, out.shape, ref.shape,
    )
    require(out.dtype == x0.dtype, "result dtype {} differs from the input's {}", out.dtype, x0.dtype)
    if out.size:
        fin = np.isfinite(x0) if poke else None
        mx = max(1.0, float(np.max(np.abs(x0.astype(np.float64)), where=fin, initial=0.0) if poke else np.max(np.abs(x0.astype(np.float64)))))
        with np.errstate(all="ignore"):
            err = np.abs(out.astype(post_ref.LD) - ref)
        if poke:
            # where the recursion's own (local) sum is finite the result must be that value; entries the
            # non-finite sample reaches (or a statistic pad computed from it) are not constrained
            reach = ~np.isfinite(ref)
            require(np.isfinite(out[~reach]).all(),
                    "one {} at flat index {} makes {} entries non-finite whose Kaldi delta recursion value is finite (only {} entries are within reach of it)",
                    poke["val"], poke["pos"] % x0.size, int((~np.isfinite(out[~reach])).sum()), int(reach.sum()))
            err = np.where(reach, 0, err)
        elif scale > 1e300 and mode in post_ref.NUMPY_PAD_MODES:
            # a pad value computed from data of 2**1020 (the mean of many such samples) may itself overflow: entries whose
            # reference is not finite are not constrained
            err = np.where(~np.isfinite(ref), 0, err)
        if x0.dtype.kind == "i":
            tol = 1.0 + 1e-6 * mx
        elif x0.dtype == np.float32:
            tol = 1e-3 * mx
        else:
            tol = 1e-9 * mx
        worst = float(np.max(err))
        if not worst <= tol:
            idx = np.unravel_index(int(np.argmax(err)), err.shape)
            require(
                False,
                "value at {} is {!r}, Kaldi delta recursion gives {!r} (|err| {:.3g} > {:.3g})",
                tuple(int(i) for i in idx), out[idx].item(), float(ref[idx]), worst, tol,
            )
        # order 0 is the input itself, exactly
        ta = target % nt
        sl = [slice(None)] * out.ndim
        sl[ta] = slice(0, shape[ta]) if cc else 0
        require(np.array_equal(out[tuple(sl)], x0, equal_nan=bool(poke)), "the first block of the result is not the input")
    if not in_place:
        require(_same(x, x0), "Deltas.apply modified its input although in_place=False")

    empty = x0.size == 0
    labels = [
        "ndim=%d" % ndim,
        "mode=" + mode,
        "dtype=" + case["dtype"],
        "concat" if cc else "stack",
        "num_deltas=%d" % nd,
        "layout=" + case.get("layout", "C"),
    ]
    if axis < 0:
        labels.append("axis<0")
    if target < 0:
        labels.append("target<0")
    if empty:
        labels.append("empty")
    if T == 1:
        labels.append("T=1")
    if nd * W > T - 1 and nd:
        labels.append("pad>=T")
    if cc and axis % ndim == target % ndim:
        labels.append("target==axis")
    if in_place:
        labels.append("in_place")
    if poke:
        labels.append("one non-finite entry")
    nontrivial = (not empty) and nd > 0 and (ndim >= 3 or axis < 0 or target < 0)
    return {"nontrivial": nontrivial, "labels": labels}


# ------------------------------------------------------------------ clause: stack


@st.composite
def stack_cases(draw):
    ndim = draw(st.sampled_from([2, 2, 2, 3, 3, 4]))
    shape = [draw(st.sampled_from(SIZES)) for _ in range(ndim)]
    tpos = draw(st.integers(0, ndim - 1))
    fpos = draw(st.integers(0, ndim - 2))
    if fpos >= tpos:
        fpos += 1
    n = draw(st.sampled_from([1, 2, 2, 2, 3, 3, 3, 4, 4, 5]))
    T = draw(st.sampled_from([0, 1, 2, 3, 4, 5, 6, 7, 8, 9, 10, 11, 12, 13, n - 1, n, n + 1, 2 * n, 2 * n + 1, 3 * n - 1] * 2 + [301, 1024, 1027]))
    shape[tpos] = T
    shape[fpos] = draw(st.sampled_from([1, 1, 2, 3, 4, 5, 0]))
    return {
        "shape": shape,
        "time_axis": tpos - ndim if draw(st.booleans()) else tpos,
        "axis": fpos - ndim if draw(st.booleans()) else fpos,
        "num_vectors": n,
        "pad_mode": draw(st.sampled_from([None, None, "edge", "constant", "edge", "constant"] + list(STACK_NUMPY_MODES))),
        "dtype": draw(st.sampled_from(["f64", "f32", "i32", "i16"])),
        "seed": draw(st.integers(0, 2 ** 32 - 1)),
        "layout": draw(st.sampled_from(LAYOUTS)),
        "in_place": draw(st.sampled_from([False, False, False, True])),
        "prior": draw(st.one_of(st.none(), st.none(), st.lists(st.integers(2, 5), min_size=2, max_size=3))),
    }


def check_stack(case):
    from pydrobert.speech.post import Stack

    shape = case["shape"]
    ndim = len(shape)
    ta, fa, n, mode = case["time_axis"], case["axis"], case["num_vectors"], case["pad_mode"]
    if ndim < 2 or not -ndim <= ta < ndim or not -ndim <= fa < ndim or ta % ndim == fa % ndim or n < 1:
        raise Discard()
    if mode not in (None, "edge", "constant") + STACK_NUMPY_MODES:
        raise Discard()
    if mode in STACK_NUMPY_MODES and (shape[ta] < (2 if mode == "reflect" else 1) or 0 in shape):
        raise Discard()  # numpy.pad cannot extend an empty axis (and treats a single frame under 'reflect' as legacy edge padding)
    x = make_tensor(shape, case["dtype"], case["seed"], 100.0, case.get("layout", "C"))
    x0 = x.copy()
    in_place = bool(case.get("in_place", False))
    T, F = shape[ta], shape[fa]

    def build():
        if mode is None:
            return call("Stack(%d, time_axis=%d)" % (n, ta), Stack, n, time_axis=ta)
        return call("Stack(%d, time_axis=%d, pad_mode=%r)" % (n, ta, mode), Stack, n, time_axis=ta, pad_mode=mode)

    if case.get("prior"):
        # another Stack object with its own numpy.pad keyword arguments exists in the process
        other = Stack(2, time_axis=0, pad_mode="constant", constant_values=7)
        other.apply(np.arange(6.0).reshape(3, 2))
    s = build()
    if case.get("prior"):
        pshape = [max(2, v) for v in case["prior"]][:3]
        if len(pshape) >= 2 and ta % len(pshape) != (len(pshape) - 1) % len(pshape) and -len(pshape) <= ta < len(pshape):
            call("Stack.apply (earlier call)", s.apply, make_tensor(pshape, "f64", 7, 1.0, "C"), axis=-1)
    out = call("Stack.apply(axis=%d)" % fa, s.apply, x, axis=fa, in_place=in_place)
    ref = post_ref.stack_ref(x0, n, ta, fa, mode)
    require(isinstance(out, np.ndarray), "Stack.apply returned {}", type(out).__name__)
    require(
        out.shape == ref.shape,
        "layout: shape {} time_axis={} axis={} num_vectors={} pad_mode={} gives shape {}, expected {}",
        tuple(shape), ta, fa, n, mode, out.shape, ref.shape,
    )
    def unequal(a, b):
        """Boolean mask of the entries of a that differ from b."""
        if mode in ("mean", "linear_ramp") and a.size:
            # computed values (a mean, a ramp): equal up to the rounding of the summation order / the integer cast
            lim = 1.0 if x0.dtype.kind == "i" else (1e-4 if x0.dtype == np.float32 else 1e-10) * max(1.0, float(np.max(np.abs(x0.astype(np.float64)))))
            return np.abs(a.astype(np.float64) - b.astype(np.float64)) > lim
        return np.asarray(a) != np.asarray(b)

    neq = unequal(out, ref)
    if out.size and bool(np.any(neq)):
        bad = np.argwhere(neq)[0]
        idx = tuple(int(i) for i in bad)
        require(
            False, "value at {} is {!r}; frame layout out[t, i*F+f] = in[t*n+i, f] gives {!r}",
            idx, out[idx].item(), ref[idx].item(),
        )
    if not in_place:
        require(_same(x, x0), "Stack.apply modified its input although in_place=False")
    if ndim == 2:
        # the 2-D fast path and the N-D path must agree: lift to (.., .., 1)
        x3 = x0.copy()[:, :, None]
        s3 = call("Stack", Stack, n, time_axis=ta % 2, **({} if mode is None else {"pad_mode": mode}))
        out3 = call("Stack.apply on the (T,F,1) lift", s3.apply, x3, axis=fa % 2)
        require(
            out3.shape == ref.shape + (1,) and not bool(np.any(unequal(out3[:, :, 0], ref))),
            "2-D and N-D code paths disagree: 2-D shape {}, lifted 3-D shape {}", out.shape, out3.shape,
        )

    incomplete = T % n != 0
    empty = x0.size == 0
    labels = ["ndim=%d" % ndim, "pad=%s" % mode, "dtype=" + case["dtype"], "layout=" + case.get("layout", "C")]
    if ta < 0:
        labels.append("time<0")
    if fa < 0:
        labels.append("axis<0")
    if incomplete:
        labels.append("incomplete")
    if T < n:
        labels.append("T<n")
    if T == 0:
        labels.append("T=0")
    if T // n >= 2:
        labels.append("runs>=2")
    if n == 1:
        labels.append("n=1")
    if empty:
        labels.append("empty")
    if in_place:
        labels.append("in_place")
    nontrivial = (not empty) and n > 1 and (ndim >= 3 or ta < 0 or fa < 0 or incomplete)
    return {"nontrivial": nontrivial, "labels": labels}


def clauses(tier):
    post_ref.ensure_self_test()
    return [
        Clause(
            "deltas", check_deltas,
            "non-trivial = non-empty tensor, num_deltas >= 1 and (ndim >= 3 or negative axis or negative target_axis)",
            deltas_cases, quick=3000, thorough=90000,
         fuzz_runs=2500),
        Clause(
            "stack", check_stack,
            "non-trivial = non-empty tensor, num_vectors >= 2 and (ndim >= 3 or a negative axis argument or an "
            "incomplete final run); 2-D inputs are also re-run through the N-D path as (T,F,1)",
            stack_cases, quick=3000, thorough=90000,
         fuzz_runs=2500),
    ]
