"""C14 - PyTorch modules compute what their NumPy counterparts compute (differential)."""
import numpy as np
from hypothesis import strategies as st

from ..core import Clause, Discard, Violation, call, require
from ..oracles import stft_ref
from ..strategies import (bank_specs, build_bank, build_si, build_stft, floats, gabor_degenerate,
                          gammatone_degenerate, make_signal, si_specs, signal_specs, stft_specs, SIGNAL_KINDS)

PROPERTY = "C14"
LEVEL = "exploration"
RULE = (
    "Differential testing: generated STFT configurations (as C02) and signals through "
    "PyTorchSTFTFrameComputer.from_stft_frame_computer vs compute_full; pre-/post-processor and SI wrappers vs their "
    "NumPy counterparts; TorchScript vs eager; metamorphic and statistical relations for PyTorchDither."
)
ASSUMPTIONS = [
    "STFT values are compared for signals of at least frame_length samples and for signals shorter than frame_length//2+1 (empty output); lengths in between are not covered by the statement",
    "tolerances relative to the column maximum: 1e-9 (float64 signal, complex128 filters, float64 window), 2e-4 (float32 / default parameter types); TorchScript vs eager 1e-6",
    "configurations in which some filter has no DFT bin at all (empty truncated response; the torch constructor documents a ValueError for empty filters) are discarded and counted",
    "the NumPy side is judged against the documented definition by C02; here the two implementations only have to agree",
    "dither statistics: 2e5 samples, 6-sigma bounds, seed fixed by the case (deterministic per VERIF_SEED)",
    "torch runs single-threaded (torch.set_num_threads(1))",
]

_torch = None


def T():
    global _torch
    if _torch is None:
        import torch

        torch.set_num_threads(1)
        _torch = torch
    return _torch


def _thr():
    from pydrobert.speech import config

    return config.EFFECTIVE_SUPPORT_THRESHOLD


def check_stft(case):
    torch = T()
    from pydrobert.speech.torch import PyTorchSTFTFrameComputer

    spec, prec = case["comp"], case["prec"]
    if gabor_degenerate(spec["bank"], _thr()) or gammatone_degenerate(spec["bank"], _thr()):
        raise Discard()
    bank = call("bank constructor", build_bank, spec["bank"])
    comp = call("STFT constructor", build_stft, spec, bank)
    L, S = comp.frame_length, comp.frame_shift
    if S < 1 or (S > L and spec["kaldi_shift"]):
        raise Discard()  # (with kaldi_shift and a shift above the length compute_full itself rejects most signals)
    D0 = stft_ref.documented_dft_size(L, spec["pad"])
    if any(len(bank.get_truncated_response(i, D0)[1]) == 0 for i in range(bank.num_filts)):
        # a filter without a single DFT bin: the torch module documents a ValueError for empty filters
        raise Discard()
    sig = dict(case["sig"], layout="contig")
    N = sig["n"]
    if L // 2 + 1 <= N < L:
        N = L + (N % (2 * L))  # map the uncovered band onto N >= L
        sig["n"] = N
    if prec == "double":
        x = make_signal(sig, np.float64)
        mod = call("from_stft_frame_computer", PyTorchSTFTFrameComputer.from_stft_frame_computer, comp, torch.cdouble, torch.double)
        rtol, afrac = 1e-9, 1e-12
    else:
        x = make_signal(sig, np.float32)
        if prec == "single":
            mod = call("from_stft_frame_computer", PyTorchSTFTFrameComputer.from_stft_frame_computer, comp, torch.cfloat, torch.float)
        else:
            mod = call("from_stft_frame_computer", PyTorchSTFTFrameComputer.from_stft_frame_computer, comp)
        rtol, afrac = 2e-4, 2e-5
    if case.get("strided"):
        # a view with a stride (every other sample of a longer buffer) is as valid a signal as a contiguous one
        big = np.zeros(2 * len(x) + 1, dtype=x.dtype)
        big[::2][: len(x)] = x
        big[1::2] = 7.5
        x = big[::2][: len(x)]
    ref = call("compute_full", comp.compute_full, x.astype(np.float64) if prec != "double" else x)
    with torch.no_grad():
        if case.get("prior_n") is not None:
            # the module (and the NumPy computer) may have been called before on another signal
            y = make_signal({"n": case["prior_n"], "kind": "noise", "seed": 5, "scale": 3.0}, x.dtype)
            if not (L // 2 + 1 <= len(y) < L):
                call("torch module forward (earlier call)", mod, torch.from_numpy(y))
        if not case.get("requires_grad"):
            out = call("torch module forward", mod, torch.from_numpy(x if case.get("strided") else x.copy()))
    if case.get("requires_grad"):
        # the signal is a tensor tracked by autograd (the output of a learnable front end), outside torch.no_grad():
        # the values are the same signal
        xt = torch.from_numpy(x.copy()).requires_grad_(True)
        out = call("torch module forward (signal requires grad)", mod, xt).detach()
    require(isinstance(out, torch.Tensor) and out.ndim == 2, "module returned {!r}", type(out))
    got = out.numpy().astype(np.float64)
    require(
        tuple(got.shape) == tuple(ref.shape),
        "N={} L={} S={} energy={}: torch shape {} but compute_full shape {}", N, L, S, spec["include_energy"], tuple(got.shape), tuple(ref.shape),
    )
    style = comp.frame_style
    kal = spec["kaldi_shift"] and style == "centered"
    if ref.shape[0]:
        win = np.asarray(comp._window, dtype=np.float64) if hasattr(comp, "_window") else np.ones(L)
        D = stft_ref.documented_dft_size(L, spec["pad"])
        # every frame is judged at its own level (each frame is transformed on its own in both implementations)
        nat = stft_ref.natural_rows(x.astype(np.float64), win, L, S, D, style, kal, spec["use_power"])
        msg = stft_ref.compare_features_per_frame(got, ref, spec["use_log"], nat, energy_col=spec["include_energy"], rtol=rtol, afrac=afrac,
                                                    floor=1e-300 if prec == "double" else 1e-35)
        require(msg is None, "N={} L={} S={} D={} style={} kaldi={} {}: torch vs numpy: {}", N, L, S, D, style, spec["kaldi_shift"], prec, msg)
    labels = ["prec=" + prec, "style=" + style, "bank=" + spec["bank"]["alias"], "D%4=" + str(stft_ref.documented_dft_size(L, spec["pad"]) % 4)]
    if ref.shape[0] == 0:
        labels.append("empty-output")
    if spec["include_energy"]:
        labels.append("energy")
    if case.get("strided"):
        labels.append("strided-input")
    if case.get("requires_grad"):
        labels.append("signal requires grad")
    if kal:
        labels.append("kaldi")
    if case.get("script"):
        smod = call("torch.jit.script", torch.jit.script, mod)
        with torch.no_grad():
            sout = call("scripted forward", smod, torch.from_numpy(x.copy()))
        require(tuple(sout.shape) == tuple(out.shape), "scripted shape {} vs eager {}", tuple(sout.shape), tuple(out.shape))
        if out.numel():
            d = float((sout - out).abs().max())
            m = float(out.abs().max())
            require(d <= 1e-6 * max(1.0, m), "TorchScript differs from eager by {!r} (max {!r})", d, m)
        labels.append("scripted")
    nontrivial = (not bank.is_real) or spec["include_energy"] or ref.shape[0] == 0
    return {"nontrivial": bool(nontrivial), "labels": labels}


def check_preemph(case):
    torch = T()
    from pydrobert.speech.pre import Preemphasize
    from pydrobert.speech.torch import PyTorchPreemphasize

    dt = np.float64 if case["prec"] == "double" else np.float32
    x = make_signal(_contig(case["sig"]), dt)
    pre = Preemphasize(case["coeff"])
    ref = call("Preemphasize.apply", pre.apply, x)
    mod = call("from_preemphasize", PyTorchPreemphasize.from_preemphasize, pre)
    if case.get("script"):
        mod = call("torch.jit.script", torch.jit.script, mod)
    out = call("PyTorchPreemphasize", mod, torch.from_numpy(x.copy())).numpy()
    require(out.shape == ref.shape, "shape {} vs {}", out.shape, ref.shape)
    require(out.dtype == ref.dtype, "dtype {} vs {}", out.dtype, ref.dtype)
    if len(x):
        tol = (1e-12 if dt == np.float64 else 1e-5) * max(1.0, float(np.max(np.abs(ref))))
        d = float(np.max(np.abs(out.astype(np.float64) - ref.astype(np.float64))))
        require(d <= tol, "PyTorchPreemphasize differs from Preemphasize.apply by {!r} (coeff {!r}, n={})", d, case["coeff"], len(x))
    return {"nontrivial": len(x) >= 2, "labels": ["prec=" + case["prec"], "n=%s" % ("0" if len(x) == 0 else "1" if len(x) == 1 else "2..64" if len(x) <= 64 else
                                                                                   "65..5000" if len(x) <= 5000 else ">32767")]}


def _post(spec):
    from pydrobert.speech import post

    if spec["alias"] == "deltas":
        return post.Deltas(spec["num_deltas"], context_window=spec["context_window"], concatenate=spec["concatenate"])
    if spec["alias"] == "stack":
        return post.Stack(spec["num_vectors"], pad_mode=spec["pad_mode"])
    return post.Standardize(norm_var=spec["norm_var"])


def check_post(case):
    torch = T()
    from pydrobert.speech.torch import PyTorchPostProcessorWrapper

    dt = np.float64 if case["prec"] == "double" else np.float32
    rng = np.random.Generator(np.random.PCG64(case["seed"]))
    x = (rng.standard_normal((case["T"], case["F"])) * 3 + 1).astype(dt)
    p = _post(case["post"])
    ref = call("PostProcessor.apply", p.apply, x.copy())
    mod = call("from_postprocessor", PyTorchPostProcessorWrapper.from_postprocessor, p)
    out = call("PyTorchPostProcessorWrapper", mod, torch.from_numpy(x.copy()))
    require(tuple(out.shape) == tuple(ref.shape), "wrapper shape {} vs apply {}", tuple(out.shape), tuple(ref.shape))
    require(out.dtype == torch.from_numpy(x).dtype, "wrapper dtype {} for input {}", out.dtype, x.dtype)
    if ref.size:
        d = float(np.max(np.abs(out.numpy().astype(np.float64) - ref.astype(np.float64))))
        tol = (1e-12 if dt == np.float64 else 1e-5) * max(1.0, float(np.max(np.abs(ref))))
        require(d <= tol, "wrapper differs from apply by {!r} for {}", d, case["post"])
    return {"nontrivial": case["T"] >= 2, "labels": ["post=" + case["post"]["alias"], "prec=" + case["prec"]]}


def _contig(sig):
    return dict(sig, layout="contig")


def check_si(case):
    torch = T()
    from pydrobert.speech.torch import PyTorchSIFrameComputer

    spec = case["comp"]
    if gabor_degenerate(spec["bank"], _thr()) or gammatone_degenerate(spec["bank"], _thr()):
        raise Discard()
    bank = call("bank constructor", build_bank, spec["bank"])
    if max(int(r) - int(l) for l, r in bank.supports) > 1200:
        raise Discard()  # cost bound: filters thousands of samples long make each wrapper call take seconds
    comp = call("SI constructor", build_si, spec, bank)
    comp2 = build_si(spec, bank)
    dt = np.float64 if case["prec"] == "double" else np.float32
    x = make_signal(_contig(case["sig"]), dt)
    ref = call("compute_full", comp2.compute_full, x)
    mod = call("from_si_frame_computer", PyTorchSIFrameComputer.from_si_frame_computer, comp)
    out = call("PyTorchSIFrameComputer(%s[%d])" % (case["prec"], len(x)), mod, torch.from_numpy(x.copy()))
    require(tuple(out.shape) == tuple(ref.shape), "SI wrapper shape {} vs compute_full {}", tuple(out.shape), tuple(ref.shape))
    require(out.dtype == torch.from_numpy(x).dtype, "SI wrapper dtype {} for input {}", out.dtype, x.dtype)
    if ref.size:
        require(np.array_equal(out.numpy(), ref), "SI wrapper output differs from compute_full")
    blocks = len(x) >= comp._dft_size if hasattr(comp, "_dft_size") else len(x) > 256
    return {"nontrivial": ref.shape[0] >= 1 and blocks, "labels": ["prec=" + case["prec"], "long" if blocks else "short"]}


def check_dither(case):
    torch = T()
    from pydrobert.speech.pre import Dither
    from pydrobert.speech.torch import PyTorchDither

    coeff, n, seed = case["coeff"], case["n"], case["seed"]
    tdt = torch.double if case["prec"] == "double" else torch.float
    mod = call("from_dither", PyTorchDither.from_dither, Dither(coeff))
    if case.get("script"):
        mod = call("torch.jit.script", torch.jit.script, mod)
    rng = np.random.Generator(np.random.PCG64(seed))
    x = torch.from_numpy(rng.standard_normal(n) * case["scale"]).to(tdt)
    z = torch.zeros(n, dtype=tdt)
    torch.manual_seed(seed)
    a = call("PyTorchDither", mod, x.clone())
    torch.manual_seed(seed)
    b = call("PyTorchDither", mod, x.clone())
    require(torch.equal(a, b), "PyTorchDither is not reproducible under torch.manual_seed({})", seed)
    torch.manual_seed(seed)
    nz = call("PyTorchDither", mod, z.clone())
    require(a.shape == x.shape and a.dtype == x.dtype, "output shape/dtype {} {} for input {} {}", tuple(a.shape), a.dtype, tuple(x.shape), x.dtype)
    eps = 1e-12 if tdt == torch.double else 1e-5
    if n:
        d = float(((a - x) - nz).abs().max())
        require(d <= eps * max(1.0, case["scale"] + 6 * coeff), "noise depends on the signal: max difference {!r}", d)
        torch.manual_seed(seed + 1)
        c = mod(x.clone())
        if coeff > 0 and n >= 8:
            require(not torch.equal(a, c), "different seeds gave identical noise")
        if coeff == 0:
            require(torch.equal(a, x), "coeff 0 is not the identity")
    labels = ["prec=" + case["prec"], "coeff=0" if coeff == 0 else "coeff>0"]
    if n >= 100000 and coeff > 0:
        noise = nz.double().numpy()
        m, s = float(noise.mean()), float(noise.std())
        require(abs(m) <= 6 * coeff / np.sqrt(n), "noise mean {!r} is not 0 within 6 sigma (coeff {!r}, n={})", m, coeff, n)
        require(abs(s - coeff) <= 6 * coeff / np.sqrt(2 * n), "noise standard deviation {!r}, requested {!r} (n={})", s, coeff, n)
        labels.append("statistics")
    return {"nontrivial": coeff > 0 and n >= 8, "labels": labels}


# ----------------------------------------------------------------------------- generators


@st.composite
def _stft_cases(draw):
    comp = draw(stft_specs(max_len=48))
    if draw(st.integers(0, 7)) == 0:
        # sub-sampled analysis: a frame shift above the frame length ("every STFT computer configuration")
        comp["S"] = comp["L"] + draw(st.one_of(st.integers(1, 4), st.integers(1, 2 * comp["L"] + 1)))
        comp["kaldi_shift"] = False
    L = comp["L"]
    n = draw(st.one_of(st.integers(L, 5 * L + 3), st.integers(0, L // 2), st.sampled_from([L, L + 1, 2 * L, 0, L // 2])))
    if draw(st.integers(0, 11)) == 0:
        n = min(draw(st.sampled_from([4097, 10000, 16385])), 2000 * comp["S"] + 97)  # (at most ~2000 frames: the NumPy reference loops over frames)
    elif draw(st.integers(0, 3)) == 0:
        # lengths on and next to the boundaries of the frame count: whole and half multiples of the shift, at or above
        # one frame length, for even and odd multiples (a tie in N / S rounds differently under different rounding rules)
        S = comp["S"]
        kmin = max(0, -(-(L - S // 2) // S))
        n = max(L, (kmin + draw(st.integers(0, 5))) * S + draw(st.sampled_from([S // 2, S // 2, (S + 1) // 2, 0])) + draw(st.sampled_from([0, 0, 0, -1, 1])))
    return {
        "prior_n": draw(st.one_of(st.none(), st.none(), st.integers(0, 4 * L))),
        "strided": draw(st.sampled_from([False, False, False, True])),
        "comp": comp,
        # (a large dynamic range over time is where a single-precision running sum differs from per-frame sums)
        "sig": draw(signal_specs(st.just(n), SIGNAL_KINDS + ["loud_quiet", "loud_quiet"])),
        "prec": draw(st.sampled_from(["double", "single", "single", "default"])),
        "script": draw(st.sampled_from([False] * 9 + [True])),
        "requires_grad": draw(st.sampled_from([False, False, False, True])),
    }


def clauses(tier):
    post_specs = st.one_of(
        st.fixed_dictionaries({"alias": st.just("deltas"), "num_deltas": st.integers(0, 3), "context_window": st.integers(1, 3), "concatenate": st.booleans()}),
        st.fixed_dictionaries({"alias": st.just("stack"), "num_vectors": st.integers(1, 4), "pad_mode": st.sampled_from([None, "edge", "constant"])}),
        st.fixed_dictionaries({"alias": st.just("standardize"), "norm_var": st.booleans()}),
    )
    return [
        Clause("stft_module", check_stft,
               "non-trivial = complex bank, include_energy or empty output; every 10th case is also TorchScript-compiled",
               _stft_cases, quick=1000, thorough=20000),
        Clause("preemphasize", check_preemph,
               "PyTorchPreemphasize vs Preemphasize.apply; non-trivial = >= 2 samples",
               lambda: st.fixed_dictionaries({"sig": signal_specs(st.one_of(st.integers(0, 64), st.integers(0, 64), st.integers(65, 5000),
                                                                                 st.sampled_from([32768, 32769, 32770, 65537, 70001, 140000]))),
                                              "coeff": st.one_of(floats(-2, 2), st.just(0.97)),
                                              "prec": st.sampled_from(["double", "single"]), "script": st.sampled_from([False, False, False, True])}),
               quick=400, thorough=8000, shards=8),
        Clause("postprocessor_wrapper", check_post,
               "PyTorchPostProcessorWrapper vs PostProcessor.apply for deltas / stack / standardize; non-trivial = >= 2 frames",
               lambda: st.fixed_dictionaries({"post": post_specs, "T": st.one_of(st.integers(2, 12), st.integers(2, 12), st.integers(13, 400)),
                                              "F": st.one_of(st.integers(1, 5), st.integers(1, 5), st.integers(6, 41)), "seed": st.integers(0, 2 ** 32 - 1),
                                              "prec": st.sampled_from(["double", "single"])}),
               quick=400, thorough=8000, shards=8),
        Clause("si_wrapper", check_si,
               "PyTorchSIFrameComputer vs compute_full on float32/float64 tensors; non-trivial = >= 1 frame and a signal of at least one DFT size",
               lambda: st.fixed_dictionaries({"comp": si_specs(), "sig": signal_specs(st.one_of(st.integers(0, 60), st.integers(100, 1500))),
                                              "prec": st.sampled_from(["double", "single"])}),
               quick=200, thorough=5000, shards=8),
        Clause("dither", check_dither,
               "PyTorchDither: reproducible per seed, noise independent of the signal, identity at coeff 0, mean/std of 2e5 draws within 6 sigma; non-trivial = coeff > 0 and n >= 8",
               lambda: st.fixed_dictionaries({"coeff": st.one_of(st.just(0.0), st.just(1.0), floats(0.001, 100.0)),
                                              "n": st.one_of(st.integers(0, 64), st.just(200000)),
                                              "seed": st.integers(0, 2 ** 31 - 1), "scale": st.sampled_from([0.0, 1.0, 1000.0]),
                                              "prec": st.sampled_from(["double", "single"]), "script": st.sampled_from([False, False, True])}),
               quick=120, thorough=3000, shards=8),
    ]
