"""C06 - frequency-domain representations of a filter agree."""
import math

import numpy as np
from hypothesis import strategies as st

from ..core import Clause, call, require
from ..oracles import banks_ref as R
from ..strategies import fragile_widths, round_linear_tri_specs, tame_threshold_case, threshold_configs, with_config, bank_specs, floats
from .c05 import check_triple, enum_triples, _thr, apply_warmup, bank_labels, build_or_discard, narrowed_specs, warmups

PROPERTY = "C06"
LEVEL = "exploration"
RULE = (
    "Generated (bank configuration, filter index, DFT width >= 2) triples; oracle = the consistency "
    "relations of the LinearFilterBank docstrings (recipe rebuilding the full response from "
    "get_truncated_response, half spectrum = leading bins, Hermitian symmetry, analytic = no negative "
    "frequencies). Non-trivial = complex filter whose truncated response wraps, or width < 16, or odd width."
)
ASSUMPTIONS = [
    "banks are the valid configurations of C05 (degenerate Gabor / L2-gammatone banks, recognised from the reference formulas, are discarded)",
    "widths are 2..4096, drawn absolutely or as 0.25..12 bins per documented bandwidth (forces supports wider than the period)",
    "|rebuilt - full| <= 2*EFFECTIVE_SUPPORT_THRESHOLD (Gabor, gammatone) or 1e-12 (triangular, Fbank); half / Hermitian comparisons at 1e-12 * max(1, max|H|)",
    "'vanish on negative frequencies' is checked on bins strictly between Nyquist and the sampling rate",
]


def _width(case, spec, i):
    W = case.get("width")
    if W is None:
        l, r = R.layout(spec)[1][i]
        W = int(min(4096, max(2, math.ceil(case["bins"] * spec["sampling_rate"] / (r - l)))))
    return W


def _width_labels(W):
    labs = ["width odd" if W % 2 else "width even"]
    labs.append("width<=8" if W <= 8 else ("width<16" if W < 16 else ("width<256" if W < 256 else "width>=256")))
    if W & (W - 1) == 0:
        labs.append("width 2^k")
    return labs


def _half_len(W):
    return (W + 1) // 2 if W % 2 else W // 2 + 1


def _setup(case):
    spec = case["bank"]
    thr = _thr()
    bank = build_or_discard(spec, thr)
    i = case["filt"] % spec["num_filts"]
    W = _width(case, spec, i)
    apply_warmup(bank, spec["num_filts"], i, W, case.get("warmup"))
    return spec, thr, bank, i, W


def _support_labels(spec, bank, i, W):
    rate = float(spec["sampling_rate"])
    lo, hi = (float(x) for x in bank.supports_hz[i])
    labs = []
    if lo < 0:
        labs.append("support crosses 0 Hz")
    if hi > rate / 2:
        labs.append("support crosses Nyquist")
    if hi - lo >= rate:
        labs.append("support >= one period")
    if (hi - lo) * W / rate < 1:
        labs.append("support < 1 bin")
    return labs


# ------------------------------------------------------------------ clause: truncated vs full


def check_truncated(case):
    spec, thr, bank, i, W = _setup(case)
    full = call("get_frequency_response", bank.get_frequency_response, i, W)
    require(isinstance(full, np.ndarray) and full.shape == (W,), "full response has shape {!r}, expected ({},)", getattr(full, "shape", None), W)
    require(bool(np.all(np.isfinite(full))), "non-finite value in get_frequency_response (filter {}, width {})", i, W)
    out = call("get_truncated_response", bank.get_truncated_response, i, W)
    require(isinstance(out, tuple) and len(out) == 2, "get_truncated_response returned {!r}", type(out))
    bin_idx, trnc = out
    require(isinstance(bin_idx, (int, np.integer)), "start bin is a {}", type(bin_idx).__name__)
    bin_idx = int(bin_idx)
    require(isinstance(trnc, np.ndarray) and trnc.ndim == 1, "truncated response is not a 1-D array")
    require(bool(np.all(np.isfinite(trnc))), "non-finite value in get_truncated_response (filter {}, width {})", i, W)
    n = len(trnc)
    require(0 <= bin_idx < W, "start bin {} outside [0, {})", bin_idx, W)
    is_real = bool(bank.is_real)
    compact = spec["alias"] in ("tri", "fbank")
    rebuilt = np.zeros(W, dtype=np.result_type(trnc.dtype, full.dtype))
    if is_real:
        require(bin_idx + n <= W // 2 + 1, "real bank: truncated response covers bins [{}, {}) beyond the half spectrum ({} bins)", bin_idx, bin_idx + n, W // 2 + 1)
        # documented recipe (real filter)
        rebuilt[bin_idx:bin_idx + n] = trnc
        mirror = trnc[:None if bin_idx else 0:-1].conj()
        a, b = W - bin_idx - n + 1, W - bin_idx + 1
        require(len(rebuilt[a:b]) == len(mirror), "documented mirror recipe does not fit: slice [{}:{}] of {} bins for {} values", a, b, W, len(mirror))
        rebuilt[a:b] = mirror
    else:
        require(n <= W, "truncated response has {} bins for a DFT of {} bins", n, W)
        # documented recipe (complex filter, may wrap around)
        wrap = min(bin_idx + n, W) - bin_idx
        rebuilt[bin_idx:bin_idx + wrap] = trnc[:wrap]
        rebuilt[:n - wrap] = trnc[wrap:]
    err = float(np.max(np.abs(rebuilt - full)))
    tol = 1e-12 if compact else 2 * thr
    if err > tol:
        k = int(np.argmax(np.abs(rebuilt - full)))
        require(False, "filter {} width {}: rebuilt[{}] = {!r} but full[{}] = {!r} (|diff| = {:.3g} = {:.3g} x threshold; start bin {}, {} bins)",
                i, W, k, complex(rebuilt[k]), k, complex(full[k]), err, err / thr, bin_idx, n)
    wraps = (not is_real) and bin_idx + n > W
    whole = bin_idx == 0 and n == W
    labs = bank_labels(spec) + _width_labels(W) + _support_labels(spec, bank, i, W)
    if wraps:
        labs.append("truncated wraps")
    if whole:
        labs.append("whole period")
    if n == 0:
        labs.append("truncated empty")
    return {"nontrivial": bool(wraps or W < 16 or W % 2), "labels": labs}


# ------------------------------------------------------------------ clause: half spectrum, symmetry


def check_half(case):
    spec, thr, bank, i, W = _setup(case)
    full = call("get_frequency_response", bank.get_frequency_response, i, W)
    half = call("get_frequency_response(half=True)", bank.get_frequency_response, i, W, True)
    require(isinstance(full, np.ndarray) and full.shape == (W,), "full response has shape {!r}, expected ({},)", getattr(full, "shape", None), W)
    hl = _half_len(W)
    require(isinstance(half, np.ndarray) and half.shape == (hl,), "half response has shape {!r}, documented length for width {} is {}", getattr(half, "shape", None), W, hl)
    require(bool(np.all(np.isfinite(full))) and bool(np.all(np.isfinite(half))), "non-finite value in a frequency response (filter {}, width {})", i, W)
    scale = max(1.0, float(np.max(np.abs(full))))
    d = np.abs(full[:hl] - half)
    if float(np.max(d)) > 1e-12 * scale:
        k = int(np.argmax(d))
        require(False, "filter {} width {}: half[{}] = {!r} but full[{}] = {!r}", i, W, k, complex(half[k]), k, complex(full[k]))
    labs = bank_labels(spec) + _width_labels(W) + _support_labels(spec, bank, i, W)
    if bool(bank.is_real):
        k = np.arange(1, W)
        d = np.abs(full[k] - np.conj(full[W - k]))
        if len(d) and float(np.max(d)) > 1e-12 * scale:
            j = int(np.argmax(d)) + 1
            require(False, "real filter {} width {}: full[{}] = {!r} but conj(full[{}]) = {!r}", i, W, j, complex(full[j]), W - j, complex(np.conj(full[W - j])))
        require(not np.iscomplexobj(full) or float(np.abs(full[0].imag)) <= 1e-12 * scale, "real filter: DC bin is not real")
        labs.append("hermitian checked")
    if spec.get("analytic"):
        neg = [k for k in range(W) if 2 * k > W]
        if neg:
            m = float(np.max(np.abs(full[neg])))
            require(m == 0.0, "analytic filter {} width {}: |H| = {!r} on a negative-frequency bin", i, W, m)
        labs.append("analytic checked")
    return {"nontrivial": bool(W < 16 or W % 2 or not bank.is_real), "labels": labs}


# ------------------------------------------------------------------ strategies


def _cases():
    widths = st.one_of(
        st.none(), st.none(),
        st.integers(2, 8), st.integers(2, 64), st.integers(2, 4096),
        # arbitrary mid-range widths (a grid built with a float step has one point too many for some 5 % of them)
        st.integers(40, 1000), fragile_widths(4097),
        st.sampled_from([2, 4, 8, 16, 64, 256, 512, 1024, 2048, 4096]),
        st.sampled_from([3, 5, 7, 9, 15, 17, 63, 65, 255, 257, 1023, 1025, 4095]),
    )
    banks = st.one_of(bank_specs(max_filts=12), bank_specs(max_filts=12), bank_specs(max_filts=40),
                      narrowed_specs(["tri", "fbank", "gabor", "gammatone"]), round_linear_tri_specs(),
                      # a triangular bank accepts a top edge up to 1 Hz above the Nyquist frequency (round-off leeway):
                      # its last filter must still stay inside the half spectrum
                      st.builds(lambda b, d, a: dict(b, high_hz=float(b["sampling_rate"] // 2) + d, low_hz=min(b["low_hz"], b["sampling_rate"] / 8.0), analytic=a),
                                bank_specs(kinds=["tri"], rates=[100, 100, 1000, 2000], max_filts=3), st.sampled_from([1.0, 1.0, 0.5, 0.01]),
                                st.sampled_from([False, False, True])))
    return st.fixed_dictionaries({
        "bank": banks, "filt": st.integers(0, 39), "width": widths,
        "bins": st.one_of(floats(0.25, 2.0), floats(0.25, 12.0)),
        "warmup": warmups(),
        "config": threshold_configs(),
    }).map(tame_threshold_case)


def clauses(tier):
    return [
        Clause("request_orders", check_triple,
               "exhaustive: every ordered triple of requests (get_frequency_response / get_truncated_response, two filters, two or three widths) on one bank "
               "object per bank class; the last answer must equal a fresh bank's. Non-trivial = three different requests",
               None, enumerate=lambda tier: enum_triples(("freq", "half", "trunc")), enum_name="all_triples"),
        Clause("truncated", with_config(check_truncated),
               "one (bank, filter, width) per case: documented recipe applied to get_truncated_response vs get_frequency_response; start bin in [0, width); real banks within the half spectrum; finite. Non-trivial = complex filter whose truncated response wraps, or width < 16, or odd width",
               _cases, quick=2000, thorough=200000, fuzz_runs=2500),
        Clause("half", with_config(check_half),
               "one (bank, filter, width) per case: half=True has the documented length and equals the leading bins; real banks Hermitian; analytic tri/Fbank vanish above Nyquist; finite. Non-trivial = complex bank, or width < 16, or odd width",
               _cases, quick=1200, thorough=100000),
    ]
