"""C08 - alias / JSON configuration builds the same objects as explicit construction."""
import collections
import collections.abc
import copy
import importlib
import json
import types

import numpy as np
from hypothesis import strategies as st

from ..core import Clause, Discard, HarnessError, Violation, call, expect_raises, require
from ..strategies import bank_specs, make_signal, signal_specs, window_specs

PROPERTY = "C08"
LEVEL = "exploration"
RULE = (
    "Registry: every (family, alias) of the expected table (written from the documentation) enumerated, resolved from the "
    "family, from the class itself and through alias_factory_subclass_from_arg. Generated: strings outside the table, class "
    "forests under a throw-away AliasedFactory root (sibling, parent/child and inherited alias conflicts), argument forms of "
    "alias_factory_subclass_from_arg, and nested computer configurations pushed through JSON and compared bit-for-bit with "
    "an explicitly constructed twin."
)
ASSUMPTIONS = [
    "the expected alias table below is the oracle for 'every alias of every concrete class' (a class or alias added later is not judged)",
    "shadowing forests are created in depth-first pre-order (each new class hangs under the chain leading to the previously created class), the shapes for which 'registered last' is unambiguous; a class defined later under an earlier sibling is not generated",
    "a subclass that does not define its own `aliases` shares its parent's set and, being registered later, is expected to win",
    "twin configurations: sampling rate 1000-8000 Hz, 2-6 filters, float64 signals up to 700 samples; STFT frame shift <= frame length; SI frame shift below every reading of the one-sided support bound; a ValueError raised identically by both construction paths discards the case",
    "JSON floats round-trip exactly (repr), so bit-identical features are expected, not merely close ones",
]

# ------------------------------------------------------------------ expected registry (from the docs)

TABLE = {
    "ScalingFunction": ("pydrobert.speech.scales", {
        "LinearScaling": ["linear", "uniform"],
        "OctaveScaling": ["octave"],
        "MelScaling": ["mel"],
        "BarkScaling": ["bark"],
    }),
    "LinearFilterBank": ("pydrobert.speech.filters", {
        "TriangularOverlappingFilterBank": ["tri", "triangular"],
        "Fbank": ["fbank"],
        "GaborFilterBank": ["gabor"],
        "ComplexGammatoneFilterBank": ["gammatone", "tonebank"],
    }),
    "WindowFunction": ("pydrobert.speech.filters", {
        "BartlettWindow": ["bartlett", "triangular", "tri"],
        "BlackmanWindow": ["blackman", "black"],
        "HammingWindow": ["hamming"],
        "HannWindow": ["hanning", "hann"],
        "GammaWindow": ["gamma"],
    }),
    "FrameComputer": ("pydrobert.speech.compute", {
        "ShortTimeFourierTransformFrameComputer": ["stft"],
        "ShortIntegrationFrameComputer": ["si"],
    }),
    "PreProcessor": ("pydrobert.speech.pre", {
        "Dither": ["dither", "dithering"],
        "Preemphasize": ["preemphasize", "preemphasis", "preemph"],
    }),
    "PostProcessor": ("pydrobert.speech.post", {
        "Standardize": ["standardize", "normalize", "unit", "cmvn"],
        "Deltas": ["deltas"],
        "Stack": ["stack"],
    }),
}
# smallest keyword arguments each class needs (required parameters only; small bank so a computer is cheap)
_SMALL_BANK = {"alias": "fbank", "num_filts": 3, "sampling_rate": 4000}
MINIMAL = {
    "LinearScaling": {"low_hz": 0.0},
    "OctaveScaling": {"low_hz": 20.0},
    "TriangularOverlappingFilterBank": {"scaling_function": "mel"},
    "GaborFilterBank": {"scaling_function": "mel"},
    "ComplexGammatoneFilterBank": {"scaling_function": "mel"},
    "ShortTimeFourierTransformFrameComputer": {"bank": _SMALL_BANK},
    "ShortIntegrationFrameComputer": {"bank": _SMALL_BANK, "frame_shift_ms": 2},
    "Deltas": {"num_deltas": 1},
    "Stack": {"num_vectors": 2},
}
# an intermediate abstract class from which the concrete computers must be reachable too
INTERMEDIATE = {"FrameComputer": "LinearFilterBankFrameComputer"}


def _family(name):
    return getattr(importlib.import_module(TABLE[name][0]), name)


def _cls(family, cname):
    return getattr(importlib.import_module(TABLE[family][0]), cname)


def _alias_map(family):
    out = {}
    for cname, aliases in TABLE[family][1].items():
        for a in aliases:
            if a in out:
                raise HarnessError("alias %r listed twice in family %s" % (a, family))
            out[a] = cname
    return out


ALL_ALIASES = sorted({a for fam in TABLE for a in _alias_map(fam)})


# ------------------------------------------------------------------ clause: registry (exhaustive)


def check_registry(case):
    from pydrobert.speech.alias import alias_factory_subclass_from_arg

    family, alias, via = case["family"], case["alias"], case["via"]
    cname = _alias_map(family)[alias]
    fam, cls = _family(family), _cls(family, cname)
    kwargs = copy.deepcopy(MINIMAL.get(cname, {}))
    before = copy.deepcopy(kwargs)
    if via == "family":
        obj = call("%s.from_alias(%r)" % (family, alias), fam.from_alias, alias, **kwargs)
    elif via == "self":
        obj = call("%s.from_alias(%r)" % (cname, alias), cls.from_alias, alias, **kwargs)
    elif via == "intermediate":
        mid = getattr(importlib.import_module(TABLE[family][0]), INTERMEDIATE[family])
        obj = call("%s.from_alias(%r)" % (INTERMEDIATE[family], alias), mid.from_alias, alias, **kwargs)
    elif via == "positional":
        # required parameters given positionally (from_alias(alias, *args))
        if len(kwargs) != 1 and "bank" not in kwargs:
            raise Discard()
        first = "bank" if "bank" in kwargs else next(iter(kwargs))
        rest = {k: v for k, v in kwargs.items() if k != first}
        obj = call("%s.from_alias(%r, <positional>)" % (family, alias), fam.from_alias, alias, kwargs[first], **rest)
    elif via == "from_arg_alias":
        obj = call("alias_factory_subclass_from_arg(%s, {'alias': %r, ...})" % (family, alias), alias_factory_subclass_from_arg, fam,
                   dict(kwargs, alias=alias))
    elif via == "from_arg_name":
        obj = call("alias_factory_subclass_from_arg(%s, {'name': %r, ...})" % (family, alias), alias_factory_subclass_from_arg, fam,
                   dict(kwargs, name=alias))
    elif via == "from_arg_str":
        if kwargs:
            raise Discard()  # a bare string means default arguments; this class has required ones
        obj = call("alias_factory_subclass_from_arg(%s, %r)" % (family, alias), alias_factory_subclass_from_arg, fam, alias)
    else:
        raise HarnessError(via)
    require(type(obj) is cls, "{} alias {!r} (via {}) built a {}, expected {}", family, alias, via, type(obj).__name__, cname)
    require(kwargs == before, "keyword arguments were modified: {!r} -> {!r}", before, kwargs)
    require(alias in cls.aliases, "{!r} is not listed in {}.aliases = {!r}", alias, cname, sorted(cls.aliases))
    shared = sum(1 for f in TABLE if alias in _alias_map(f)) > 1
    return {"nontrivial": True, "labels": [family, "via=" + via] + (["alias-shared-across-families"] if shared else [])}


VIAS = ["family", "self", "positional", "from_arg_alias", "from_arg_name", "from_arg_str"]


def registry_enum(tier):
    for family in TABLE:
        for alias in sorted(_alias_map(family)):
            for via in VIAS + (["intermediate"] if family in INTERMEDIATE else []):
                yield {"family": family, "alias": alias, "via": via}


# ------------------------------------------------------------------ clause: unknown alias


def _mangle(base, mode, text):
    if mode == "upper":
        return base.upper()
    if mode == "title":
        return base.title()
    if mode == "trailing_space":
        return base + " "
    if mode == "leading_space":
        return " " + base
    if mode == "prefix":
        return base[:-1]
    if mode == "suffix":
        return base + text[:1] if text else base + "s"
    if mode == "empty":
        return ""
    if mode == "class_name":
        return text
    return text  # random / other family


def check_unknown(case):
    from pydrobert.speech.alias import alias_factory_subclass_from_arg

    family, mode = case["family"], case["mode"]
    amap = _alias_map(family)
    own = sorted(amap)
    if mode == "other_family":
        others = [a for a in ALL_ALIASES if a not in amap]
        s = others[case["pick"] % len(others)]
    elif mode == "class_name":
        s = sorted(TABLE[family][1])[case["pick"] % len(TABLE[family][1])]
    else:
        s = _mangle(own[case["pick"] % len(own)], mode, case["text"])
    if s in amap:
        raise Discard()
    fam = _family(family)
    kwargs = copy.deepcopy(MINIMAL.get(amap[own[case["pick"] % len(own)]], {})) if case["with_kwargs"] else {}
    if case.get("prior_failure"):
        # an earlier, unrelated configuration error in the same process (a bank given an unknown or invalid
        # scale, directly or nested in a computer configuration) must not change how aliases resolve afterwards
        from pydrobert.speech import compute, filters

        for bad in ("nope", {"name": "octave", "low_hz": 0}):
            try:
                if case["prior_failure"] == 1:
                    filters.GaborFilterBank(bad, num_filts=3)
                else:
                    compute.STFTFrameComputer({"name": "tri", "scaling_function": bad, "num_filts": 3})
            except ValueError:
                pass
    if case["through"] == "from_alias":
        expect_raises("%s.from_alias(%r)" % (family, s), ValueError, fam.from_alias, s, **kwargs)
    elif case["through"] == "str":
        expect_raises("alias_factory_subclass_from_arg(%s, %r)" % (family, s), ValueError, alias_factory_subclass_from_arg, fam, s)
    else:
        key = "alias" if case["through"] == "map_alias" else "name"
        expect_raises("alias_factory_subclass_from_arg(%s, {%r: %r})" % (family, key, s), ValueError,
                      alias_factory_subclass_from_arg, fam, dict(kwargs, **{key: s}))
    return {"nontrivial": True, "labels": [family, "mode=" + mode, "through=" + case["through"]]}


def unknown_cases():
    return st.fixed_dictionaries(
        {
            "family": st.sampled_from(sorted(TABLE)),
            "mode": st.sampled_from(["random", "upper", "title", "trailing_space", "leading_space", "prefix", "suffix", "empty",
                                     "other_family", "other_family", "class_name"]),
            "pick": st.integers(0, 1000),
            "text": st.text(alphabet="abcdefghijklmnopqrstuvwxyz_-0123456789 ABCXYZ", min_size=0, max_size=10),
            "with_kwargs": st.booleans(),
            "through": st.sampled_from(["from_alias", "from_alias", "str", "map_alias", "map_name"]),
            "prior_failure": st.sampled_from([0, 0, 1, 2]),
        }
    )


# ------------------------------------------------------------------ clause: shadowing

POOL = ["a", "b", "c", "d", "tri"]


def _make_root(aliases, abstract=False):
    from pydrobert.speech.alias import AliasedFactory

    def __init__(self, *args, **kwargs):
        self.args, self.kwargs = args, kwargs

    ns = {"aliases": set(aliases), "__init__": __init__}
    if abstract and not aliases:
        # like the library's own families (ScalingFunction, LinearFilterBank ...): an abstract root without aliases;
        # every generated class below it implements the method and is concrete
        import abc

        ns["verif_abstract"] = abc.abstractmethod(lambda self: None)
    return type("VerifRoot", (AliasedFactory,), ns)


def check_shadowing(case):
    # ---- the forest as plain data first (creation order; index 0 = root)
    nodes = case["nodes"]
    parent_of = {0: None}
    eff = {0: set(case["root_aliases"])}
    own = {0: True}
    path = [0]
    labels = set()
    for i, node in enumerate(nodes, start=1):
        depth = node["parent"] % len(path)
        pidx = path[depth]
        if node["own"]:
            eff[i] = set(node["aliases"])
        else:
            eff[i] = eff[pidx]
            labels.add("inherits-aliases")
        own[i] = bool(node["own"])
        parent_of[i] = pidx
        path = path[: depth + 1] + [i]
    total = len(nodes) + 1
    start = case["start"] % total

    def in_subtree(j):
        while j is not None:
            if j == start:
                return True
            j = parent_of[j]
        return False

    # the queried alias: one that occurs in the searched subtree if possible (drawn index), else any pool word / unknown word
    present = sorted(set().union(*[eff[j] for j in range(total) if in_subtree(j)]))
    if case["query_present"] and present:
        query = present[case["query"] % len(present)]
    else:
        query = (POOL + ["zz"])[case["query"] % (len(POOL) + 1)]
    args, kwargs = case["args"], case["kwargs"]

    # ---- now register the classes one by one; the same lookup may also be made *between* registrations
    # (drawn positions): a class registered later must win from then on, whatever was resolved before
    root = _make_root(case["root_aliases"], abstract=True)
    classes = [root]
    probes = set(case.get("probes") or ())

    def lookup(upto, final):
        if start >= upto:
            return None
        matching = [j for j in range(upto) if in_subtree(j) and query in eff[j]]
        desc = "from_alias(%r) from class #%d with %d of %d classes registered" % (query, start, upto, total)
        if not matching:
            expect_raises(desc, ValueError, classes[start].from_alias, query, *args, **kwargs)
            return matching
        want = max(matching)  # registered last
        obj = call(desc, classes[start].from_alias, query, *args, **kwargs)
        got = classes.index(type(obj)) if type(obj) in classes else None
        require(got == want, "{}: alias shared by classes #{} (creation order): built #{}, the last registered is #{} (parents {})", desc,
                matching, got, want, [parent_of[j] for j in range(upto)])
        require(obj.args == tuple(args) and obj.kwargs == kwargs, "constructor arguments not passed through: got {!r} {!r}", obj.args, obj.kwargs)
        return matching

    early = 0
    for i in range(1, total):
        if i in probes:
            if lookup(i, False) is not None:
                early += 1
        ns = {"verif_abstract": lambda self: None}
        if own[i]:
            ns["aliases"] = set(nodes[i - 1]["aliases"])
        classes.append(type("VerifNode%d" % i, (classes[parent_of[i]],), ns))
    matching = lookup(total, True)
    if early:
        labels.add("lookups-between-registrations")
    if not matching:
        labels.add("unknown")
        return {"nontrivial": False, "labels": sorted(labels)}
    want = max(matching)
    if len(matching) > 1 and not _is_ancestor(parent_of, want, max(j for j in matching if j != want)):
        # the last-registered class does not accept a keyword that the shadowed ones accept: the alias still means the
        # last-registered class (its TypeError reaches the caller) - an older class must not be built instead
        winner = classes[want]
        inherited = winner.__init__

        def strict(self, *a, **k):
            if "only_old" in k:
                raise TypeError("__init__() got an unexpected keyword argument 'only_old'")
            inherited(self, *a, **k)

        winner.__init__ = strict
        try:
            try:
                obj = classes[start].from_alias(query, only_old=1)
            except Exception:  # noqa - the winner's rejection (in whatever exception the library reports it)
                obj = None
        finally:
            del winner.__init__
        require(obj is None, "from_alias({!r}, only_old=1): the last-registered class #{} rejects the keyword, but an instance of class #{} was built instead",
                query, want, classes.index(type(obj)) if type(obj) in classes else "?")
        labels.add("winner-rejects-arguments")
    if len(matching) > 1:
        for j in matching:
            if j != want:
                rel = "parent-child" if _is_ancestor(parent_of, j, want) else "siblings/cousins"
                labels.add("conflict:" + rel)
    if start != 0:
        labels.add("from-subclass")
    if want == start:
        labels.add("start-class-itself")
    return {"nontrivial": len(matching) > 1, "labels": sorted(labels) or ["unique"]}


def _is_ancestor(parent_of, a, b):
    j = parent_of[b]
    while j is not None:
        if j == a:
            return True
        j = parent_of[j]
    return False


def shadowing_cases():
    aliases = st.one_of(
        st.lists(st.sampled_from(POOL), min_size=1, max_size=3, unique=True),
        st.lists(st.sampled_from(POOL[:2]), min_size=1, max_size=2, unique=True),
        st.just([]),
    )
    node = st.fixed_dictionaries({"parent": st.integers(0, 8), "aliases": aliases, "own": st.sampled_from([True, True, True, False])})
    return st.fixed_dictionaries(
        {
            "root_aliases": st.one_of(st.just([]), aliases),
            "nodes": st.one_of(st.lists(node, min_size=2, max_size=10), st.lists(node, min_size=0, max_size=4)),
            "query": st.integers(0, 11),
            "query_present": st.sampled_from([True, True, True, False]),
            "start": st.one_of(st.just(0), st.just(0), st.integers(1, 10)),
            "args": st.lists(st.integers(0, 9), max_size=2),
            "kwargs": st.dictionaries(st.sampled_from(["x", "y", "name"]), st.integers(0, 9), max_size=2),
            "probes": st.one_of(st.just([]), st.lists(st.integers(1, 10), max_size=4, unique=True)),
        }
    )


# ------------------------------------------------------------------ clause: alias_factory_subclass_from_arg


class _ReadOnlyMapping(collections.abc.Mapping):
    def __init__(self, items):
        self._d = dict(items)

    def __getitem__(self, k):
        return self._d[k]

    def __iter__(self):
        return iter(self._d)

    def __len__(self):
        return len(self._d)


def _throwaway_family():
    root = _make_root([])

    def __init__(self, name=None, **kwargs):
        self.name, self.kwargs = name, kwargs

    k1 = type("K1", (root,), {"aliases": {"k1", "kay"}, "__init__": __init__})
    k2 = type("K2", (root,), {"aliases": {"k2"}, "__init__": __init__})
    return root, {"k1": k1, "kay": k1, "k2": k2}


def _make_mapping(maptype, items):
    if maptype == "dict":
        return dict(items)
    if maptype == "ordered":
        return collections.OrderedDict(items)
    if maptype == "proxy":
        return types.MappingProxyType(dict(items))
    if maptype == "custom":
        return _ReadOnlyMapping(items)
    raise HarnessError(maptype)


REAL_MAPPINGS = [
    # family, alias, kwargs, class, public attributes to compare
    ("ScalingFunction", "linear", {"low_hz": 3.0, "slope_hz": 2.0}, "LinearScaling", ["low_hz", "slope_hz"]),
    ("ScalingFunction", "octave", {"low_hz": 55.0}, "OctaveScaling", ["low_hz"]),
    ("WindowFunction", "gamma", {"order": 3, "peak": 0.6}, "GammaWindow", ["order", "peak"]),
    ("PreProcessor", "dithering", {"coeff": 0.5}, "Dither", ["coeff"]),
    ("PreProcessor", "preemph", {"coeff": 0.9}, "Preemphasize", ["coeff"]),
    ("PostProcessor", "deltas", {"num_deltas": 2, "concatenate": False}, "Deltas", ["num_deltas", "concatenate"]),
    ("PostProcessor", "stack", {"num_vectors": 3, "time_axis": 1}, "Stack", ["num_vectors", "time_axis"]),
    ("LinearFilterBank", "fbank", {"num_filts": 5, "sampling_rate": 8000}, "Fbank", ["num_filts", "sampling_rate"]),
]
REAL_STRINGS = [
    ("ScalingFunction", "mel"), ("ScalingFunction", "bark"), ("WindowFunction", "hann"), ("WindowFunction", "tri"),
    ("WindowFunction", "black"), ("WindowFunction", "gamma"), ("LinearFilterBank", "fbank"), ("PreProcessor", "dither"),
    ("PreProcessor", "preemphasis"), ("PostProcessor", "cmvn"), ("PostProcessor", "unit"),
]


def check_from_arg(case):
    from pydrobert.speech.alias import alias_factory_subclass_from_arg as afsfa

    kind = case["kind"]
    labels = ["kind=" + kind]
    if kind == "instance":
        if case["real"]:
            family, alias = REAL_STRINGS[case["pick"] % len(REAL_STRINGS)]
            fam = _family(family)
            obj = _cls(family, _alias_map(family)[alias])()
        else:
            fam, classes = _throwaway_family()
            obj = classes[["k1", "k2"][case["pick"] % 2]](name="n")
        snapshot = dict(vars(obj))
        got = call("alias_factory_subclass_from_arg(family, instance)", afsfa, fam, obj)
        require(got is obj, "an instance of the family was not returned unchanged (got a different {} object)", type(got).__name__)
        require(dict(vars(obj)) == snapshot, "the instance's attributes were modified")
        labels.append("real" if case["real"] else "throwaway")
        return {"nontrivial": True, "labels": labels}
    if kind == "str":
        if case["real"]:
            family, alias = REAL_STRINGS[case["pick"] % len(REAL_STRINGS)]
            fam, cls = _family(family), _cls(family, _alias_map(family)[alias])
            got = call("alias_factory_subclass_from_arg(%s, %r)" % (family, alias), afsfa, fam, alias)
            require(type(got) is cls, "string {!r} built a {}, expected {}", alias, type(got).__name__, cls.__name__)
            ref = cls()  # default arguments
            for k, v in vars(ref).items():
                if isinstance(v, (int, float, str, bool, type(None))):
                    require(getattr(got, k) == v, "string alias {!r}: attribute {} = {!r}, default construction gives {!r}", alias, k,
                            getattr(got, k), v)
        else:
            fam, classes = _throwaway_family()
            alias = ["k1", "kay", "k2"][case["pick"] % 3]
            got = call("alias_factory_subclass_from_arg(root, %r)" % alias, afsfa, fam, alias)
            require(type(got) is classes[alias], "string {!r} built a {}", alias, type(got).__name__)
            require(got.name is None and got.kwargs == {}, "a string alias must use default arguments, got name={!r} kwargs={!r}", got.name,
                    got.kwargs)
        labels.append("real" if case["real"] else "throwaway")
        return {"nontrivial": True, "labels": labels}
    # ---- mapping
    maptype, keys = case["maptype"], case["keys"]
    labels += ["map=" + maptype, "keys=" + keys]
    if case["real"]:
        family, alias, kw, cname, attrs = REAL_MAPPINGS[case["pick"] % len(REAL_MAPPINGS)]
        if keys == "both":
            keys = "alias"  # real classes do not accept a `name` keyword
            labels[-1] = "keys=alias"
        fam, cls = _family(family), _cls(family, cname)
        items = list(copy.deepcopy(kw).items())
        special = [(keys, alias)]
        items = special + items if case["special_first"] else items + special
        m = _make_mapping(maptype, items)
        before = copy.deepcopy(dict(m))
        order = list(m)
        got = call("alias_factory_subclass_from_arg(%s, %s %r)" % (family, maptype, dict(m)), afsfa, fam, m)
        require(type(got) is cls, "mapping {!r} built a {}, expected {}", before, type(got).__name__, cname)
        for a in attrs:
            require(getattr(got, a) == kw[a], "mapping {!r}: attribute {} is {!r}", before, a, getattr(got, a))
        labels.append("real")
    else:
        fam, classes = _throwaway_family()
        alias = ["k1", "kay", "k2"][case["pick"] % 3]
        name_val = case["name_val"]
        extras = copy.deepcopy(case["extras"])
        special = []
        if keys in ("alias", "both"):
            special.append(("alias", alias))
        if keys in ("name", "both"):
            special.append(("name", alias if keys == "name" else name_val))
        if case["swap"]:
            special.reverse()
        items = list(extras.items())
        items = special + items if case["special_first"] else items + special
        m = _make_mapping(maptype, items)
        before = copy.deepcopy(dict(m))
        order = list(m)
        got = call("alias_factory_subclass_from_arg(root, %s %r)" % (maptype, dict(m)), afsfa, fam, m)
        require(type(got) is classes[alias], "mapping {!r} built a {}, expected {} ('alias' takes precedence over 'name')", before,
                type(got).__name__, classes[alias].__name__)
        if keys == "both":
            require(got.name == name_val, "with both keys, 'name' must be passed on as a keyword argument: got name={!r}, expected {!r}",
                    got.name, name_val)
            if name_val in classes and classes[name_val] is not classes[alias]:
                labels.append("name-is-another-alias")
        else:
            require(got.name is None, "the key used as the alias must not be passed on: name={!r}", got.name)
        require(got.kwargs == extras, "remaining keys must be passed as keyword arguments: got {!r}, expected {!r}", got.kwargs, extras)
        labels.append("throwaway")
    require(dict(m) == before and list(m) == order, "the mapping was modified: {!r} -> {!r}", before, dict(m))
    require(type(m) is type(_make_mapping(maptype, [])), "mapping type changed")
    return {"nontrivial": True, "labels": labels}


def from_arg_cases():
    json_val = st.one_of(st.integers(-5, 5), st.booleans(), st.none(), st.text(alphabet="abk12", max_size=3),
                         st.lists(st.integers(0, 3), max_size=3))
    return st.fixed_dictionaries(
        {
            "kind": st.sampled_from(["instance", "str", "mapping", "mapping", "mapping", "mapping"]),
            "real": st.booleans(),
            "pick": st.integers(0, 1000),
            "maptype": st.sampled_from(["dict", "ordered", "proxy", "custom"]),
            "keys": st.sampled_from(["alias", "name", "both", "both"]),
            "name_val": st.sampled_from(["k1", "k2", "kay", "something", "", "alias"]),
            "extras": st.dictionaries(st.sampled_from(["x", "y", "coeff", "aliases", "Alias", "names"]), json_val, max_size=3),
            "special_first": st.booleans(),
            "swap": st.booleans(),
        }
    )


# ------------------------------------------------------------------ clause: JSON twin

BANK_CLASS = {"tri": "TriangularOverlappingFilterBank", "fbank": "Fbank", "gabor": "GaborFilterBank",
              "gammatone": "ComplexGammatoneFilterBank"}
SCALE_CLASS = {"mel": "MelScaling", "bark": "BarkScaling", "linear": "LinearScaling", "octave": "OctaveScaling"}
WINDOW_CLASS = {"hann": "HannWindow", "hamming": "HammingWindow", "blackman": "BlackmanWindow", "bartlett": "BartlettWindow",
                "gamma": "GammaWindow"}
COMPUTER_CLASS = {"stft": "ShortTimeFourierTransformFrameComputer", "si": "ShortIntegrationFrameComputer"}
# documented defaults: a key whose value equals the default may be left out of BOTH the configuration and the explicit call
DEFAULTS = {
    "bank": {"num_filts": 40, "high_hz": None, "low_hz": 20.0, "sampling_rate": 16000, "analytic": False, "scale_l2_norm": False,
             "erb": False, "order": 4, "max_centered": False},
    "computer": {"frame_length_ms": None, "frame_shift_ms": 10, "frame_style": None, "include_energy": False,
                 "pad_to_nearest_power_of_two": True, "use_log": True, "use_power": False, "kaldi_shift": False},
    "scale": {"slope_hz": 1.0},
    "window": {"order": 4, "peak": 0.75},
}


def ms_for(samples, rate):
    """A millisecond value that int(0.001 * ms * rate) maps back to `samples` (half a sample of margin)."""
    return (samples + 0.5) * 1000.0 / rate


def _pick_alias(family, cname, k):
    al = sorted(TABLE[family][1][cname])
    return al[k % len(al)]


def _sparse(level, kw, sparse):
    if not sparse:
        return dict(kw)
    d = DEFAULTS[level]
    return {k: v for k, v in kw.items() if not (k in d and d[k] == v and type(d[k]) is type(v))}


def _same(a, b):
    """Deep equality of public attribute values; NaN equals NaN (degenerate banks report NaN supports)."""
    if isinstance(a, (tuple, list)) and isinstance(b, (tuple, list)):
        return type(a) is type(b) and len(a) == len(b) and all(_same(x, y) for x, y in zip(a, b))
    if isinstance(a, dict) and isinstance(b, dict):
        return sorted(a) == sorted(b) and all(_same(a[k], b[k]) for k in a)
    if isinstance(a, (float, np.floating)) and isinstance(b, (float, np.floating)):
        return bool(a == b or (a != a and b != b))
    return type(a) is type(b) and bool(a == b)


def _public(obj, names):
    out = {}
    for n in names:
        if hasattr(obj, n):
            out[n] = getattr(obj, n)
    return out


COMPUTER_ATTRS = ["frame_style", "sampling_rate", "frame_length", "frame_shift", "frame_length_ms", "frame_shift_ms", "num_coeffs",
                  "includes_energy", "started", "kaldi_shift"]
BANK_ATTRS = ["num_filts", "sampling_rate", "is_real", "is_analytic", "is_zero_phase", "supports_hz", "supports", "centers_hz",
              "supports_ms"]


def check_twin(case):
    from pydrobert.speech import compute, filters
    from pydrobert.speech.alias import alias_factory_subclass_from_arg

    bspec, comp, sparse, pick = case["bank"], case["computer"], case["sparse"], case["pick"]
    keyname = lambda i: "alias" if (case["keys"] >> i) & 1 else "name"  # noqa: E731
    rate = bspec["sampling_rate"]

    # ---------------- explicit twin, bottom up
    sspec = bspec.get("scale")
    scale_kw = {k: v for k, v in (sspec or {}).items() if k != "alias"}
    scale_kw_s = _sparse("scale", scale_kw, sparse)
    bank_kw = {k: v for k, v in bspec.items() if k not in ("alias", "scale", "numtype")}
    bank_kw_s = _sparse("bank", bank_kw, sparse)
    bank_cls = getattr(filters, BANK_CLASS[bspec["alias"]])
    twin_error = None
    try:
        if sspec is not None:
            scale = getattr(importlib.import_module("pydrobert.speech.scales"), SCALE_CLASS[sspec["alias"]])(**scale_kw_s)
            bank = bank_cls(scale, **bank_kw_s)
        else:
            bank = bank_cls(**bank_kw_s)
    except Exception as e:  # noqa
        twin_error = e
        bank = None
    wspec = case["window"]
    window, window_cfg, window_kw_s = None, None, {}
    if wspec is not None:
        window_kw = {k: v for k, v in wspec.items() if k != "alias"}
        if case["window_as_str"]:
            window_kw = {}  # a bare string means default arguments
        window_kw_s = _sparse("window", window_kw, sparse)
        window = getattr(filters, WINDOW_CLASS[wspec["alias"]])(**window_kw_s)
    # frame parameters in samples -> milliseconds
    comp_kw = {
        "frame_style": case["frame_style"],
        "include_energy": case["include_energy"],
        "pad_to_nearest_power_of_two": case["pad"],
        "use_log": case["use_log"],
        "use_power": case["use_power"],
    }
    if comp == "stft":
        L = case["L"]
        S = 1 + int(case["S_frac"] * (L if L is not None else 8) * 0.999999)
        comp_kw["frame_length_ms"] = None if L is None else ms_for(L, rate)
        comp_kw["kaldi_shift"] = case["kaldi_shift"]
    else:
        if bank is None:
            S = 1
        else:
            sup = bank.supports
            bound = min(max(r for _, r in sup), max((r - l) // 2 for l, r in sup))
            if bound < 2:
                raise Discard()
            S = 1 + int(case["S_frac"] * min(bound - 1, 64) * 0.999999)
    comp_kw["frame_shift_ms"] = ms_for(S, rate)
    comp_kw_s = _sparse("computer", comp_kw, sparse)
    comp_cls = getattr(compute, COMPUTER_CLASS[comp])
    twin = None
    if twin_error is None:
        try:
            twin = comp_cls(bank, window_function=window, **comp_kw_s) if window is not None else comp_cls(bank, **comp_kw_s)
            if case.get("reuse"):
                # explicitly constructed scale / bank / window objects are ordinary objects: the same
                # instances may already have served another computer (the JSON path always builds fresh ones)
                twin = comp_cls(bank, window_function=window, **comp_kw_s) if window is not None else comp_cls(bank, **comp_kw_s)
        except Exception as e:  # noqa
            twin_error = e

    # ---------------- the same tree as a JSON configuration
    if sspec is not None:
        s_alias = _pick_alias("ScalingFunction", SCALE_CLASS[sspec["alias"]], pick)
        scale_cfg = s_alias if (not scale_kw_s and case["scale_as_str"]) else dict(scale_kw_s, **{keyname(0): s_alias})
    b_alias = _pick_alias("LinearFilterBank", BANK_CLASS[bspec["alias"]], pick // 2)
    bank_cfg = dict(bank_kw_s, **{keyname(1): b_alias})
    if sspec is not None:
        bank_cfg["scaling_function"] = scale_cfg
    cfg = dict(comp_kw_s, bank=bank_cfg)
    if wspec is not None:
        w_alias = _pick_alias("WindowFunction", WINDOW_CLASS[wspec["alias"]], pick // 3)
        window_cfg = w_alias if case["window_as_str"] else dict(window_kw_s, **{keyname(2): w_alias})
        cfg["window_function"] = window_cfg
    c_alias = _pick_alias("FrameComputer", COMPUTER_CLASS[comp], pick)
    text = json.dumps(cfg)
    cfg = json.loads(text)
    cfg_before = copy.deepcopy(cfg)
    via = case["via"]
    built_error = None
    try:
        if via == "from_arg":
            full = dict(cfg, **{keyname(3): c_alias})
            full_before = copy.deepcopy(full)
            built = alias_factory_subclass_from_arg(compute.FrameComputer, full)
            require(full == full_before, "the configuration mapping was modified while building")
        elif via == "from_alias":
            built = compute.FrameComputer.from_alias(c_alias, **cfg)
        elif via == "from_text":
            # whole configuration, alias included, through the JSON text
            full = json.loads(json.dumps(dict(cfg, **{keyname(3): c_alias})))
            built = alias_factory_subclass_from_arg(compute.FrameComputer, full)
        else:  # concrete constructor given nested configurations
            built = comp_cls(**cfg)
    except (Violation, Discard):
        raise
    except Exception as e:  # noqa
        built_error = e
    if twin_error is not None or built_error is not None:
        ta = type(twin_error).__name__ if twin_error is not None else "nothing"
        tb = type(built_error).__name__ if built_error is not None else "nothing"
        require(ta == tb, "explicit construction raised {} ({}) but building from the configuration raised {} ({}): {}", ta,
                str(twin_error)[:100], tb, str(built_error)[:100], text[:300])
        raise Discard()  # rejected identically on both paths: outside the constructible configurations
    require(cfg == cfg_before, "the nested configuration was modified while building: {!r} -> {!r}", cfg_before, cfg)

    # ---------------- compare
    require(type(built) is type(twin), "configuration built a {}, explicit twin is a {}", type(built).__name__, type(twin).__name__)
    require(type(built.bank) is type(twin.bank), "configuration built a {} bank, explicit twin has a {}", type(built.bank).__name__,
            type(twin.bank).__name__)
    pa, pb = _public(built, COMPUTER_ATTRS), _public(twin, COMPUTER_ATTRS)
    require(_same(pa, pb), "public computer attributes differ: {!r} vs explicit {!r}", pa, pb)
    ba, bb = _public(built.bank, BANK_ATTRS), _public(twin.bank, BANK_ATTRS)
    require(_same(ba, bb), "public bank attributes differ: {!r} vs explicit {!r}", ba, bb)
    sig = make_signal(case["signal"])
    errs = []
    outs = []
    for name, c in (("configuration", built), ("explicit twin", twin)):
        try:
            outs.append(c.compute_full(sig.copy()))
            errs.append(None)
        except Exception as e:  # noqa
            outs.append(None)
            errs.append(type(e).__name__)
    if errs[0] or errs[1]:
        require(errs[0] == errs[1], "compute_full: configuration-built computer {} but the explicit twin {}",
                "raised " + errs[0] if errs[0] else "returned", "raised " + errs[1] if errs[1] else "returned")
        raise Discard()  # the same failure on both sides belongs to another property (C01-C03)
    fa, fb = outs
    require(fa.shape == fb.shape and fa.dtype == fb.dtype, "feature shape/dtype {} {} vs explicit {} {}", fa.shape, fa.dtype, fb.shape,
            fb.dtype)
    if not np.array_equal(fa, fb, equal_nan=True):
        idx = tuple(int(v[0]) for v in np.nonzero(~((fa == fb) | (np.isnan(fa) & np.isnan(fb)))))
        raise Violation("features differ at %r: configuration %r vs explicit %r (config %s)" % (idx, fa[idx], fb[idx], text[:400]))
    nondefault = [sspec is not None, bool(bank_kw_s), bool(comp_kw_s)]
    labels = [comp, "bank=" + bspec["alias"], "scale=" + (sspec["alias"] if sspec else "none"), "via=" + via,
              "window=" + ("default" if wspec is None else (wspec["alias"] + ("-str" if case["window_as_str"] else "-map"))),
              "sparse" if sparse else "full", "frames=0" if fa.shape[0] == 0 else ("frames=1" if fa.shape[0] == 1 else "frames>=2")]
    if sspec is not None and isinstance(scale_cfg, str):
        labels.append("scale-as-str")
    return {"nontrivial": all(nondefault) and fa.shape[0] >= 1, "labels": labels}


def twin_cases():
    return st.fixed_dictionaries(
        {
            "computer": st.sampled_from(["stft", "stft", "si"]),
            "bank": bank_specs(rates=[1000, 2000, 4000, 8000], max_filts=6, min_filts=2),
            "window": st.one_of(st.none(), window_specs(), window_specs()),
            "window_as_str": st.booleans(),
            "scale_as_str": st.booleans(),
            "keys": st.integers(0, 15),
            "pick": st.integers(0, 11),
            "sparse": st.booleans(),
            "via": st.sampled_from(["from_arg", "from_alias", "from_text", "constructor"]),
            "L": st.one_of(st.none(), st.integers(1, 64), st.sampled_from([16, 25, 32, 50])),
            "S_frac": st.floats(min_value=0.0, max_value=1.0, allow_nan=False),
            "frame_style": st.sampled_from([None, "causal", "centered"]),
            "include_energy": st.booleans(),
            "pad": st.booleans(),
            "use_log": st.booleans(),
            "use_power": st.booleans(),
            "kaldi_shift": st.booleans(),
            "reuse": st.booleans(),
            "signal": signal_specs(st.one_of(st.integers(200, 700), st.integers(100, 400), st.integers(0, 700), st.integers(0, 40))),
        }
    )


def _self_test():
    # the expected table must be internally consistent and every listed class importable
    for fam in TABLE:
        _alias_map(fam)
        try:
            _family(fam)
            for cname in TABLE[fam][1]:
                _cls(fam, cname)
        except (ImportError, AttributeError) as e:
            raise HarnessError("expected class missing: %s" % e)


def clauses(tier):
    _self_test()
    n_reg = sum(1 for _ in registry_enum(tier))
    return [
        Clause(
            "registry", check_registry,
            "all %d (family, alias, access path) triples of the expected table; every case non-trivial" % n_reg,
            enumerate=registry_enum, enum_name="alias_registry_x_access_paths", shards=1,
        ),
        Clause(
            "unknown_alias", check_unknown,
            "strings outside the family's table: random text, case/space/prefix near-misses, aliases of other families, class names",
            unknown_cases, quick=600, thorough=12000, shards=4,
        ),
        Clause(
            "shadowing", check_shadowing,
            "random class forests (<= 11 classes, alias pool of 5); non-trivial = at least two classes in the searched subtree share the queried alias",
            shadowing_cases, quick=1500, thorough=40000,
        ),
        Clause(
            "from_arg", check_from_arg,
            "instance / string / mapping (dict, OrderedDict, MappingProxyType, read-only Mapping) with 'alias', 'name' or both, on throw-away and real classes",
            from_arg_cases, quick=1000, thorough=20000, shards=8,
        ),
        Clause(
            "json_twin", check_twin,
            "non-trivial = depth-3 tree with a non-default argument at every level and >= 1 frame computed",
            twin_cases, quick=400, thorough=8000,
        ),
    ]
