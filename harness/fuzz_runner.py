"""Coverage-guided campaign for one clause: atheris (libFuzzer) drives Hypothesis' choice sequence
through `test.hypothesis.fuzz_one_input`, so the structured generators and the semantic oracle of the
clause are reused unchanged while coverage of pydrobert.speech guides the search.

usage: python -m harness.fuzz_runner <ID> <clause> <out.json> <runs> <seed>

Writes {"rec": recorder, "violation": {...} | null} to out.json (flushed periodically, because
libFuzzer leaves the process without running atexit handlers).
"""
import json
import os
import sys

HERE = os.path.dirname(os.path.dirname(os.path.abspath(__file__)))
sys.path.insert(0, HERE)
sys.path.insert(0, os.path.join(HERE, ".deps"))


def main(argv):
    prop_id, clause_name, out, runs, seed = argv[1], argv[2], argv[3], int(argv[4]), int(argv[5])
    import atheris

    from harness import core  # sets sys.path for the repo under test

    with atheris.instrument_imports(include=["pydrobert.speech"]):
        import pydrobert.speech  # noqa
        import pydrobert.speech._sphere  # noqa
        import pydrobert.speech.compute  # noqa
        import pydrobert.speech.filters  # noqa
        import pydrobert.speech.post  # noqa
        import pydrobert.speech.pre  # noqa
        import pydrobert.speech.util  # noqa
    import importlib
    import warnings

    from hypothesis import HealthCheck, given, settings

    mod = importlib.import_module("harness.props." + prop_id.lower())
    clause = {c.name: c for c in mod.clauses("thorough")}[clause_name]
    rec = core.Recorder()
    state = {"violation": None, "n": 0}

    def flush():
        with open(out + ".tmp", "w") as f:
            json.dump({"rec": rec.to_json(), "violation": state["violation"]}, f, default=core._json_default)
        os.replace(out + ".tmp", out)

    def body(case):
        state["n"] += 1
        try:
            core.run_one_case(clause, case, rec, [])
        except core.Violation as v:
            state["violation"] = {"case": case, "message": "[found by the coverage-guided campaign] " + str(v)}
            flush()
            raise
        if state["n"] % 200 == 0:
            flush()

    test = settings(database=None, deadline=None, suppress_health_check=list(HealthCheck))(given(case=clause.strategy())(body))
    warnings.simplefilter("ignore")
    art = out + ".artifacts/"
    os.makedirs(art, exist_ok=True)
    corpus = out + ".corpus/"
    os.makedirs(corpus, exist_ok=True)
    # libFuzzer starts from tiny inputs; Hypothesis needs enough bytes for a whole case, so the
    # campaign is started from a few deterministic pseudo-random buffers (no valid inputs needed)
    import random

    prng = random.Random(seed)
    for i in range(24):
        with open(os.path.join(corpus, "seed%02d" % i), "wb") as f:
            f.write(bytes(prng.getrandbits(8) for _ in range(prng.choice([64, 256, 1024, 4096]))))
    flush()
    atheris.Setup(
        [sys.argv[0], "-runs=%d" % runs, "-seed=%d" % max(1, seed), "-max_len=8192", "-len_control=0", "-artifact_prefix=" + art,
         "-print_final_stats=0", "-verbosity=0", corpus],
        test.hypothesis.fuzz_one_input,
    )
    try:
        atheris.Fuzz()
    finally:
        flush()


if __name__ == "__main__":
    main(sys.argv)
